"""C14 - SCC, topological order and condensation match their definitions (engine E1)."""

from __future__ import annotations

import itertools
from types import SimpleNamespace

from vf.combi import NODE_LABELS, digits, fresh, unlabel
from vf.guard import call as gcall, too_many_hangs
from vf.core import Job, new_result, viol

LEVEL = "exploration"
RULE = (
    "E1: every digraph of each declared space (all digraphs with self loops on <=4 nodes x every node iteration order "
    "x ascending/descending neighbour order; adjacency lists with duplicate neighbours; neighbours outside the declared "
    "node set; 5-node graphs) is given to strongly_connected_components, topological_sort, condense and the two _edges "
    "variants (backend=python). Oracle: boolean reachability closure; classes of mutual reachability, sinks-first order, "
    "forward edges iff acyclic, condensation edges iff some original edge. Non-trivial = the graph has a cycle through "
    ">= 2 nodes or >= 2 components with an edge between them."
)
ASSUMPTIONS = [
    "n <= 5 nodes (universe <= 4 for the outside-neighbour family)",
    "for neighbours outside the declared node set the check demands the SCC partition on the declared nodes (closure "
    "reading) and the induced-subgraph reading for topological_sort, the two readings the code documents; condensation "
    "edges are not judged in that family",
]


def closure(n, adj):
    reach = [1 << i for i in range(n)]
    for u in range(n):
        for v in adj[u]:
            reach[u] |= 1 << v
    changed = True
    while changed:
        changed = False
        for u in range(n):
            m = reach[u]
            new = m
            mm = m
            while mm:
                low = mm & -mm
                new |= reach[low.bit_length() - 1]
                mm ^= low
            if new != m:
                reach[u] = new
                changed = True
    return reach


def classes(n, reach, among=None):
    out = set()
    for i in among if among is not None else range(n):
        out.add(frozenset(j for j in range(n) if reach[i] >> j & 1 and reach[j] >> i & 1))
    return out


def has_cycle(n, adj, nodes):
    """cycle in the subgraph induced by `nodes` (self loops count)"""
    ns = set(nodes)
    sub = [[v for v in adj[u] if v in ns] if u in ns else [] for u in range(n)]
    reach = closure(n, sub)
    for u in ns:
        for v in sub[u]:
            if reach[v] >> u & 1:
                return True
    return False


def check_scc(comps, n, adj, reach, declared, strict_order=True):
    errs = []
    try:
        got = [frozenset(c) for c in comps]
    except Exception:  # noqa: BLE001
        return [("shape", f"components {comps!r}")]
    flat = [x for c in comps for x in c]
    if len(flat) != len(set(flat)):
        errs.append(("node_twice", f"a node occurs in two components: {comps}"))
    dset = set(declared)
    want = classes(n, reach, declared)
    got_on_declared = {c for c in got if c & dset}
    if strict_order:
        if set(got) != want or len(got) != len(want):
            errs.append(("wrong_partition", f"components {sorted(map(sorted, got))}, mutual-reachability classes {sorted(map(sorted, want))}"))
    else:
        if {frozenset(c & dset) for c in got_on_declared} != {frozenset(c & dset) for c in want}:
            errs.append(("wrong_partition", f"components {sorted(map(sorted, got))} do not induce the classes {sorted(map(sorted, want))} on the declared nodes"))
    if strict_order and not errs:
        pos = {}
        for i, c in enumerate(got):
            for x in c:
                pos[x] = i
        for u in range(n):
            for v in adj[u]:
                if u in pos and v in pos and pos[u] < pos[v]:
                    errs.append(("not_sinks_first", f"edge {u}->{v} goes from component #{pos[u]} to the later component #{pos[v]}: {comps}"))
                    return errs
    return errs


def check_topo(res, n, adj, declared):
    from solvor.types import Status

    cyc = has_cycle(n, adj, declared)
    if cyc:
        if res.status != Status.INFEASIBLE:
            return [("cycle_not_reported", f"graph has a cycle but status {res.status.name}, order {res.solution}")]
        return []
    if res.status != Status.OPTIMAL:
        return [("acyclic_rejected", f"acyclic graph but status {res.status.name}")]
    order = res.solution
    if sorted(order) != sorted(declared):
        return [("not_all_nodes", f"order {order} is not a permutation of {list(declared)}")]
    pos = {x: i for i, x in enumerate(order)}
    for u in declared:
        for v in adj[u]:
            if v in pos and pos[u] >= pos[v]:
                return [("edge_backward", f"edge {u}->{v} points backward in {order}")]
    return []


def check_condense(res, n, adj, reach, declared):
    try:
        cnodes, cadj = res.solution
    except Exception:  # noqa: BLE001
        return [("shape", f"solution {res.solution!r}")]
    errs = []
    want = classes(n, reach, declared)
    if set(cnodes) != want or len(cnodes) != len(want):
        errs.append(("wrong_nodes", f"condensed nodes {sorted(map(sorted, cnodes))}, classes {sorted(map(sorted, want))}"))
        return errs
    if set(cadj.keys()) != want:
        errs.append(("wrong_keys", f"adjacency keys {sorted(map(sorted, cadj.keys()))}"))
        return errs
    comp_of = {}
    for c in want:
        for x in c:
            comp_of[x] = c
    wedges = set()
    for u in range(n):
        for v in adj[u]:
            if comp_of[u] != comp_of[v]:
                wedges.add((comp_of[u], comp_of[v]))
    gedges = set()
    for a, succ in cadj.items():
        for b in succ:
            gedges.add((a, b))
    if gedges != wedges:
        miss = wedges - gedges
        extra = gedges - wedges
        errs.append(("wrong_edges", f"condensation edges missing {[(sorted(a), sorted(b)) for a, b in miss]} extra {[(sorted(a), sorted(b)) for a, b in extra]}"))
    return errs


def run_graph(r, n, adj, declared, strict=True, edges_variants=True, labelled=False):
    from solvor.scc import condense, strongly_connected_components, strongly_connected_components_edges, topological_sort, topological_sort_edges

    reach = closure(n, adj)
    nb = lambda v: adj[v]  # noqa: E731
    wit = {"n": n, "adj": [list(a) for a in adj], "nodes": list(declared)}
    if labelled:
        # the same graph over labels of assorted hashable types, a fresh (equal, not identical) object at every use;
        # answers are translated back to node numbers before they are judged
        lab = lambda x: fresh(NODE_LABELS[x])  # noqa: E731
        inv = {NODE_LABELS[x]: x for x in range(n)}
        nbl = lambda v: [lab(w) for w in adj[inv[v]]]  # noqa: E731
        if labelled == "oneshot":
            # the node collection and every neighbour answer are one-shot iterables (generators): legal Iterable[S] values
            nbl = lambda v: (lab(w) for w in adj[inv[v]])  # noqa: E731
        wit["labelled"] = labelled
        edges_variants = False

        def translated(fn):
            def call():
                res = fn((lab(x) for x in declared) if labelled == "oneshot" else [lab(x) for x in declared], nbl)
                return SimpleNamespace(status=res.status, objective=res.objective, solution=unlabel(res.solution, inv))

            return call
    big_cycle = any(len(c) > 1 for c in classes(n, reach))
    nontrivial = big_cycle or (len(classes(n, reach)) > 1 and any(adj[u] and any(v != u for v in adj[u]) for u in range(n)))
    calls = [("strongly_connected_components", lambda: strongly_connected_components(list(declared), nb)), ("topological_sort", lambda: topological_sort(list(declared), nb))]
    if strict:
        calls.append(("condense", lambda: condense(list(declared), nb)))
    if labelled:
        calls = [("strongly_connected_components", translated(strongly_connected_components)), ("topological_sort", translated(topological_sort))] + ([("condense", translated(condense))] if strict else [])
    if edges_variants and strict and list(declared) == list(range(n)):
        el = [(u, v) for u in range(n) for v in adj[u]]
        calls.append(("strongly_connected_components_edges", lambda: strongly_connected_components_edges(n, el, backend="python")))
        calls.append(("topological_sort_edges", lambda: topological_sort_edges(n, el, backend="python")))
    for fname, fn in calls:
        r["n"] += 1
        if nontrivial:
            r["nontrivial"] += 1
        try:
            res = gcall(fn)
        except Exception as ex:  # noqa: BLE001
            r["outcomes"][fname + ":raised"] += 1
            r["violations"].append(viol(fname, "raised", wit, f"{fname}(nodes={list(declared)}, adj={adj}): {type(ex).__name__}: {ex}"))
            continue
        if fname.startswith("strongly"):
            errs = check_scc(res.solution, n, adj, reach, declared, strict)
            if not errs and res.objective != len(res.solution):
                errs = [("objective", f"objective {res.objective} != number of components {len(res.solution)}")]
            r["outcomes"][f"{fname}:{min(len(res.solution), 5)}comps"] += 1
        elif fname.startswith("topological"):
            errs = check_topo(res, n, adj, declared)
            r["outcomes"][f"{fname}:{res.status.name}"] += 1
        else:
            errs = check_condense(res, n, adj, reach, declared)
            r["outcomes"][f"{fname}:{len(res.solution[0]) if res.solution else 0}"] += 1
        for kind, detail in errs:
            r["violations"].append(viol(fname, kind, wit, f"{fname}(nodes={list(declared)}, adj={adj}): {detail}"))
    if not r["samples"]:
        r["samples"].append(wit)


def _all_chunk(params, lo, hi):
    """index = graph_code * (n! * 2) + perm_index*2 + nbr_order ; graph_code bit (u*n+v) = edge u->v"""
    n, self_loops, orders = params
    perms = list(itertools.permutations(range(n))) if orders == "all" else [tuple(range(n)), tuple(range(n - 1, -1, -1))]
    slots = [(u, v) for u in range(n) for v in range(n) if self_loops or u != v]
    per = len(perms) * 2
    r = new_result()
    for idx in range(lo, hi):
        code = idx // per
        pi = (idx % per) // 2
        desc = idx % 2
        adj = [[] for _ in range(n)]
        for b, (u, v) in enumerate(slots):
            if code >> b & 1:
                adj[u].append(v)
        if desc:
            adj = [list(reversed(a)) for a in adj]
        run_graph(r, n, adj, perms[pi], True, edges_variants=(pi == 0))
        if pi == len(perms) - 1:
            run_graph(r, n, adj, perms[pi], True, labelled=True)
            run_graph(r, n, adj, perms[pi], True, labelled="oneshot")
        if len(r["violations"]) >= 40 or too_many_hangs():
            r["capped"] = True
            break
    return r


def _dup_chunk(params, lo, hi):
    """n=3: each node's neighbour list is any sequence of length <=3 over the 3 nodes (40 options)"""
    seqs = [()]
    for k in (1, 2, 3):
        seqs.extend(itertools.product(range(3), repeat=k))
    r = new_result()
    for idx in range(lo, hi):
        ds = digits(idx, len(seqs), 3)
        adj = [list(seqs[d]) for d in ds]
        run_graph(r, 3, adj, (0, 1, 2))
        if len(r["violations"]) >= 40 or too_many_hangs():
            r["capped"] = True
            break
    return r


DECL = [(0, 1), (1, 0), (0, 1, 2), (2, 0, 1), (3,), (1, 3)]


def _outside_chunk(params, lo, hi):
    """all digraphs on a 4-node universe; only a subset of the nodes is declared"""
    r = new_result()
    slots = [(u, v) for u in range(4) for v in range(4)]
    for idx in range(lo, hi):
        code = idx // len(DECL)
        decl = DECL[idx % len(DECL)]
        adj = [[] for _ in range(4)]
        for b, (u, v) in enumerate(slots):
            if code >> b & 1:
                adj[u].append(v)
        run_graph(r, 4, adj, decl, strict=False)
        if idx % len(DECL) == 3:
            run_graph(r, 4, adj, decl, strict=False, labelled=True)
        if len(r["violations"]) >= 40 or too_many_hangs():
            r["capped"] = True
            break
    return r


P7 = [(0, 1), (1, 2), (2, 0), (2, 3), (3, 4), (4, 5), (5, 3), (5, 6), (6, 0), (4, 1), (1, 5), (6, 6), (3, 1)]
ORD7 = [(0, 1, 2, 3, 4, 5, 6), (6, 5, 4, 3, 2, 1, 0), (3, 0, 5, 1, 6, 2, 4)]


def _p7_chunk(params, lo, hi):
    """7 nodes, every subset of the 13 declared arcs P7 (two 3-cycles, arcs nesting and joining them, a self loop) x 3 node
    orders x asc/desc neighbour order: components that are entered through non-root members, closed late, and nested -
    shapes that need more than 5 nodes. index = (subset*3 + order)*2 + desc"""
    r = new_result()
    for idx in range(lo, hi):
        desc = idx % 2
        k = idx // 2
        order = ORD7[k % 3]
        code = k // 3
        adj = [[] for _ in range(7)]
        for b, (u, v) in enumerate(P7):
            if code >> b & 1:
                adj[u].append(v)
        adj = [sorted(a, reverse=bool(desc)) for a in adj]
        run_graph(r, 7, adj, order, True, edges_variants=(k % 3 == 0))
        if len(r["violations"]) >= 40 or too_many_hangs():
            r["capped"] = True
            break
    return r


def large_graphs():
    """a few large structured graphs (sizes beyond 64 components and beyond 900 nodes on Tarjan's stack at once, the
    thresholds at which word-sized masks and recursion guards start to matter); each as (name, n, adj)"""
    out = []
    for n in (66, 130):
        adj = [[] for _ in range(n)]
        adj[n - 1] = [v for v in range(0, n - 1, 64)]  # the last node points at nodes 0, 64, 128: components congruent mod 64
        out.append((f"fan_from_last_n{n}", n, adj))
        adj2 = [[(i + 1)] if i + 1 < n else [] for i in range(n)]
        adj2[0] = [1, 65] if n > 65 else [1]
        out.append((f"path_with_skip_n{n}", n, adj2))
    for k in (3, 70, 950):
        adj = [[] for _ in range(k + 1)]
        adj[0] = list(range(1, k + 1))
        for i in range(1, k + 1):
            adj[i] = [0]
        out.append((f"hub_with_{k}_two_cycles", k + 1, adj))
    # lollipops: a path of L nodes whose last node is the entry of a directed cycle of k nodes (the cycle closes at the node
    # that sits L-1 deep on the DFS stack), for L around 16, 32 and 64; and fans: w sources released at once into one sink,
    # one of them listing the sink twice
    for L in (5, 15, 16, 17, 18, 31, 32, 33, 64, 65):
        for k in (2, 3):
            n = L + k - 1
            adj = [[i + 1] for i in range(n)]
            adj[n - 1] = [L - 1]
            out.append((f"lollipop_path{L}_cycle{k}", n, adj))
    for w in (8, 15, 16, 17, 33):
        adj = [[w] for _ in range(w)] + [[]]
        adj[0] = [w, w]
        out.append((f"fan_{w}_sources_one_duplicate_edge", w + 1, adj))
        adj2 = [[w, w + 1] for _ in range(w)] + [[w + 1], []]
        adj2[w // 2] = [w, w + 1, w]
        out.append((f"fan_{w}_sources_two_sinks_duplicate_in_the_middle", w + 2, adj2))
    k = 920
    adj = [[] for _ in range(k + 2)]
    adj[0] = list(range(1, k + 1))
    for i in range(1, k + 1):
        adj[i] = [0] if i % 2 else [k + 1]
    out.append((f"hub_with_{k}_mixed_spokes", k + 2, adj))
    return out


def _large_chunk(params, lo, hi):
    gs = large_graphs()
    r = new_result()
    for idx in range(lo, hi):
        name, n, adj = gs[idx // 2]
        order = tuple(range(n)) if idx % 2 == 0 else tuple(range(n - 1, -1, -1))
        run_graph(r, n, adj, order, True, edges_variants=False)
    return r


def deep_graphs():
    """graphs deeper than the interpreter's recursion limit; strongly connected classes known in closed form:
    (name, n, adjacency lists, classes as a list of node lists)"""
    out = []
    n = 5000
    out.append(("path5000", n, [[i + 1] if i + 1 < n else [] for i in range(n)], [[i] for i in range(n)]))
    n = 3000
    out.append(("cycle3000", n, [[(i + 1) % n] for i in range(n)], [list(range(n))]))
    k = 600  # a chain of 600 directed triangles, triangle t reaches triangle t+1
    adj = [[] for _ in range(3 * k)]
    for t in range(k):
        a, b, c = 3 * t, 3 * t + 1, 3 * t + 2
        adj[a].append(b)
        adj[b].append(c)
        adj[c].append(a)
        if t + 1 < k:
            adj[c].append(3 * t + 3)
    out.append(("triangle_chain_1800", 3 * k, adj, [[3 * t, 3 * t + 1, 3 * t + 2] for t in range(k)]))
    return out


def _deep_chunk(params, lo, hi):
    from solvor.scc import condense, strongly_connected_components, topological_sort
    from solvor.types import Status

    gs = deep_graphs()
    r = new_result()
    for idx in range(lo, hi):
        name, n, adj, cls = gs[idx // 2]
        order = list(range(n)) if idx % 2 == 0 else list(range(n - 1, -1, -1))
        want = {frozenset(c) for c in cls}
        comp_of = {x: frozenset(c) for c in cls for x in c}
        acyclic = len(cls) == n
        wit = {"deep": name, "reversed": idx % 2 == 1}
        how = f"{name} ({n} nodes, {'descending' if idx % 2 else 'ascending'} node order)"

        def judge_scc(res):
            got = [frozenset(c) for c in res.solution]
            if set(got) != want or len(got) != len(want):
                return "partition differs from the closed form"
            pos = {x: i for i, c in enumerate(got) for x in c}
            for u in range(n):
                for v in adj[u]:
                    if pos[u] < pos[v]:
                        return f"edge {u}->{v} goes from component #{pos[u]} to the later component #{pos[v]}"
            return None

        def judge_topo(res):
            if not acyclic:
                return None if res.status == Status.INFEASIBLE else f"graph has a cycle but status {res.status.name}"
            if res.status != Status.OPTIMAL or sorted(res.solution) != list(range(n)):
                return f"status {res.status.name}, not a permutation of the nodes"
            pos = {x: i for i, x in enumerate(res.solution)}
            bad = [(u, v) for u in range(n) for v in adj[u] if pos[u] >= pos[v]]
            return f"edge {bad[0]} points backward" if bad else None

        def judge_cond(res):
            cnodes, cadj = res.solution
            if set(cnodes) != want or len(cnodes) != len(want) or set(cadj.keys()) != want:
                return "condensed nodes differ from the closed form"
            wedges = {(comp_of[u], comp_of[v]) for u in range(n) for v in adj[u] if comp_of[u] != comp_of[v]}
            gedges = {(a, b) for a, succ in cadj.items() for b in succ}
            return None if gedges == wedges else f"{len(wedges - gedges)} condensation edges missing, {len(gedges - wedges)} extra"

        for fname, fn, judge in (("strongly_connected_components", strongly_connected_components, judge_scc), ("topological_sort", topological_sort, judge_topo), ("condense", condense, judge_cond)):
            r["n"] += 1
            r["nontrivial"] += 1
            try:
                res = gcall(lambda: fn(list(order), lambda v: adj[v]))
                msg = judge(res)
            except Exception as ex:  # noqa: BLE001
                r["outcomes"][f"deep:{fname}:raised"] += 1
                r["violations"].append(viol(fname, "raised", dict(wit, function=fname), f"{fname} on {how}: {type(ex).__name__}: {str(ex)[:120]}"))
                continue
            r["outcomes"][f"deep:{fname}:{'wrong' if msg else 'ok'}"] += 1
            if msg:
                r["violations"].append(viol(fname, "wrong_on_deep_graph", dict(wit, function=fname), f"{fname} on {how}: {msg}"))
    return r


def _n5_block(params, lo, hi):
    off = params
    return _all_chunk((5, False, "two"), off + lo, off + hi)


def jobs(tier, seed):
    js = []
    js.append(Job("deep_closed_form", len(deep_graphs()) * 2, _deep_chunk, None, chunk=1, describe="a directed path of 5000 nodes, a cycle of 3000, a chain of 600 triangles: classes known in closed form, far deeper than the interpreter's recursion limit; two node orders; all three functions"))
    for n in (1, 2, 3, 4):
        import math

        js.append(Job(f"n{n}_all_digraphs_all_orders", 2 ** (n * n) * math.factorial(n) * 2, _all_chunk, (n, True, "all"), describe="every digraph with self loops x every node iteration order x asc/desc neighbour order"))
    js.append(Job("n3_duplicate_neighbours", 40**3, _dup_chunk, None, describe="neighbour lists as arbitrary sequences (duplicates) of length <=3"))
    js.append(Job("outside_neighbours_u4", 2**16 * len(DECL), _outside_chunk, None, describe="4-node universe, declared node lists " + str(DECL)))
    js.append(Job("n7_subsets_of_declared_arcs", 2 ** len(P7) * 3 * 2, _p7_chunk, None, describe=f"7 nodes, every subset of {P7}, 3 node orders x 2 neighbour orders"))
    js.append(Job("large_structured", len(large_graphs()) * 2, _large_chunk, None, chunk=1, describe="fans, skip paths and hubs with 66 to 950 nodes (more than 64 components; more than 900 nodes on the stack at once), two node orders"))
    total5 = 2**20 * 4
    if tier == "thorough":
        js.append(Job("n5_no_selfloops_2orders", total5, _all_chunk, (5, False, "two"), describe="all digraphs on 5 nodes without self loops, 2 node orders x 2 neighbour orders"))
    else:
        b = seed % 16
        lo, hi = total5 * b // 16, total5 * (b + 1) // 16
        js.append(Job(f"n5_block{b}of16", hi - lo, _n5_block, lo, describe="rotating 1/16 block of the 5-node space"))
    return js


def replay(v):
    w = v["witness"]
    r = new_result()
    if w.get("deep"):
        i = [g[0] for g in deep_graphs()].index(w["deep"]) * 2 + (1 if w.get("reversed") else 0)
        r = _deep_chunk(None, i, i + 1)
        for x in r["violations"]:
            if x["function"] == v["function"]:
                return x
        return None
    strict = sorted(w["nodes"]) == list(range(w["n"]))
    run_graph(r, w["n"], w["adj"], tuple(w["nodes"]), strict, labelled=w.get("labelled") or False)
    for x in r["violations"]:
        if x["function"] == v["function"]:
            return x
    return None
