"""Shared model generator of C05 / C06: CP programs built through solvOR's *public* operators from the
harness's own AST, which is also what the oracle evaluates (solvOR's tuple encoding is never read)."""

from __future__ import annotations

import functools
import itertools

from vf.combi import digits

# ----------------------------------------------------------------------------------- expression AST
# ('v', i) variable i ; ('c', k) integer constant ; ('add', a, b) ; ('sub', a, b) ; ('mul', k, a) = k*a ;
# ('rmul', a, k) = a*k


def ev(e, a):
    t = e[0]
    if t == "v":
        return a[e[1]]
    if t == "c":
        return e[1]
    if t == "add":
        return ev(e[1], a) + ev(e[2], a)
    if t == "sub":
        return ev(e[1], a) - ev(e[2], a)
    if t == "mul":
        return e[1] * ev(e[2], a)
    if t == "rmul":
        return ev(e[1], a) * e[2]
    raise ValueError(e)


def build(e, xs):
    """Build the expression with Python operators on solvOR objects (ints stay ints)."""
    t = e[0]
    if t == "v":
        return xs[e[1]]
    if t == "c":
        return e[1]
    if t == "add":
        return build(e[1], xs) + build(e[2], xs)
    if t == "sub":
        return build(e[1], xs) - build(e[2], xs)
    if t == "mul":
        return e[1] * build(e[2], xs)
    if t == "rmul":
        return build(e[1], xs) * e[2]
    raise ValueError(e)


def show(e, names="xyzuvwabcdefgh"):
    t = e[0]
    if t == "v":
        return names[e[1]]
    if t == "c":
        return str(e[1])
    if t == "add":
        return f"({show(e[1])}+{show(e[2])})"
    if t == "sub":
        return f"({show(e[1])}-{show(e[2])})"
    if t == "mul":
        return f"{e[1]}*{show(e[2])}"
    if t == "rmul":
        return f"{show(e[1])}*{e[2]}"
    return "?"


def has_var(e):
    return e[0] == "v" or any(isinstance(s, tuple) and has_var(s) for s in e[1:])


X, Y, Z = ("v", 0), ("v", 1), ("v", 2)


def C(k):
    return ("c", k)


@functools.lru_cache(None)
def expr_menu(depth):
    """Every expression shape the operators can produce up to the stated depth (see DESIGN 2/C05)."""
    cs = (-1, 0, 1, 2)
    ks = (0, 1, 2, -1)
    out = [X, Y]
    out += [C(c) for c in cs]
    for c in cs:
        out += [("add", X, C(c)), ("add", C(c), X), ("sub", X, C(c)), ("sub", C(c), X)]
    out += [("add", X, Y), ("sub", X, Y), ("sub", Y, X), ("add", X, X), ("sub", X, X)]
    for k in ks:
        out += [("mul", k, X), ("rmul", X, k)]
    if depth >= 2:
        out += [("add", ("add", X, Y), Z), ("add", X, ("add", Y, C(1))), ("add", ("add", X, C(1)), ("add", Y, C(-1))), ("sub", ("add", X, Y), Z), ("add", ("add", X, Y), ("add", Z, C(1)))]
        for k in (2, -1):
            out += [("add", ("mul", k, X), Y), ("add", Y, ("mul", k, X)), ("sub", ("mul", k, X), Y), ("add", ("mul", k, X), ("mul", 2, Y))]
        out += [("sub", ("sub", X, Y), Z), ("sub", X, ("sub", Y, Z)), ("sub", C(2), ("add", X, Y)), ("mul", 2, ("add", X, Y)), ("add", ("sub", C(3), X), Y)]
    return tuple(out)


DOMS = ((0, 2), (1, 3), (-1, 1), (2, 3), (0, 0))
DOM_TRIPLES = (((0, 2), (0, 2), (0, 2)), ((1, 3), (-1, 1), (0, 2)), ((2, 3), (0, 0), (-1, 1)), ((-1, 1), (-1, 1), (1, 3)), ((0, 2), (2, 3), (0, 0)), ((1, 3), (1, 3), (1, 3)))


# ------------------------------------------------------------------------------------ constraint AST
# ('cmp', '=='|'!=', lhs, rhs) ; ('alldiff', (i,...)) ; ('sum', 'eq'|'le'|'ge', (i,...), target) ; ('circuit', (i,...)) ;
# ('no_overlap', (i,...), durations) ; ('cumulative', (i,...), durations, demands, capacity)


def holds(con, a):
    k = con[0]
    if k == "cmp":
        l, r = ev(con[2], a), ev(con[3], a)
        return (l == r) if con[1] == "==" else (l != r)
    if k == "alldiff":
        vals = [a[i] for i in con[1]]
        return len(set(vals)) == len(vals)
    if k == "sum":
        s = sum(a[i] for i in con[2])
        return {"eq": s == con[3], "le": s <= con[3], "ge": s >= con[3]}[con[1]]
    if k == "circuit":
        idx = con[1]
        n = len(idx)
        succ = [a[i] for i in idx]
        if any(s < 0 or s >= n for s in succ):
            return False
        if n == 0:
            return True
        seen = set()
        cur = 0
        for _ in range(n):
            if cur in seen:
                return False
            seen.add(cur)
            cur = succ[cur]
        return cur == 0 and len(seen) == n
    if k == "no_overlap":
        idx, dur = con[1], con[2]
        for p in range(len(idx)):
            for q in range(p + 1, len(idx)):
                s1, s2 = a[idx[p]], a[idx[q]]
                if not (s1 + dur[p] <= s2 or s2 + dur[q] <= s1):
                    return False
        return True
    if k == "cumulative":
        idx, dur, dem, cap = con[1], con[2], con[3], con[4]
        if not idx:
            return True
        lo = min(a[i] for i in idx)
        hi = max(a[i] + d for i, d in zip(idx, dur))
        for t in range(lo, hi):
            if sum(dm for i, d, dm in zip(idx, dur, dem) if a[i] <= t < a[i] + d) > cap:
                return False
        return True
    raise ValueError(con)


def add_to_model(m, con, xs):
    """Add the constraint through the public API. Returns False if the comparison degenerated to a Python bool
    (both sides constants), which is not a CP constraint."""
    k = con[0]
    if k == "cmp":
        l, r = build(con[2], xs), build(con[3], xs)
        c = (l == r) if con[1] == "==" else (l != r)
        if isinstance(c, bool):
            return False
        m.add(c)
    elif k == "alldiff":
        m.add(m.all_different([xs[i] for i in con[1]]))
    elif k == "sum":
        fn = {"eq": m.sum_eq, "le": m.sum_le, "ge": m.sum_ge}[con[1]]
        m.add(fn([xs[i] for i in con[2]], con[3]))
    elif k == "circuit":
        m.add(m.circuit([xs[i] for i in con[1]]))
    elif k == "no_overlap":
        m.add(m.no_overlap([xs[i] for i in con[1]], list(con[2])))
    elif k == "cumulative":
        m.add(m.cumulative([xs[i] for i in con[1]], list(con[2]), list(con[3]), con[4]))
    return True


def show_con(con):
    if con[0] == "cmp":
        return f"{show(con[2])} {con[1]} {show(con[3])}"
    return repr(con)


def make_model(doms, cons):
    from solvor.cp import Model

    m = Model()
    names = "xyzuvwabcdefgh"
    xs = [m.int_var(lo, hi, names[i]) for i, (lo, hi) in enumerate(doms)]
    ok = True
    for c in cons:
        try:
            ok = add_to_model(m, c, xs) and ok
        except TypeError:
            ok = False  # a shape the public operators cannot build (e.g. Expr - IntVar): not a program of the space
    return m, xs, ok


def solutions(doms, cons):
    out = []
    for a in itertools.product(*[range(lo, hi + 1) for lo, hi in doms]):
        if all(holds(c, a) for c in cons):
            out.append(a)
    return out


# --------------------------------------------------------------------------------------- model spaces
# A space maps an index to (doms, cons).


def space_cmp(idx, depth, two_vars):
    """one comparison: index = ((lhs*|E| + rhs)*2 + op)*|doms| + dom"""
    E = expr_menu(depth)
    if two_vars:
        dl = [(a, b) for a in DOMS for b in DOMS]
    else:
        dl = list(DOM_TRIPLES)
    d = idx % len(dl)
    k = idx // len(dl)
    op = ("==", "!=")[k % 2]
    k //= 2
    r = E[k % len(E)]
    l = E[k // len(E)]
    return dl[d], [("cmp", op, l, r)]


def size_cmp(depth, two_vars):
    E = expr_menu(depth)
    return len(E) * len(E) * 2 * (len(DOMS) ** 2 if two_vars else len(DOM_TRIPLES))


def uses_z(e):
    return e == Z or any(isinstance(s, tuple) and uses_z(s) for s in e[1:])


@functools.lru_cache(None)
def cmp_menu_small():
    """a reduced menu of comparisons for the two-constraint models"""
    es = [X, Y, ("add", X, C(1)), ("sub", X, Y), ("add", X, Y), ("mul", 2, X), ("sub", C(2), X), ("add", ("add", X, Y), Z), ("add", ("mul", 2, X), Y), C(1), C(3)]
    out = []
    for l in es:
        for r in es:
            if has_var(l) or has_var(r):
                for op in ("==", "!="):
                    out.append(("cmp", op, l, r))
    return tuple(out)


def space_pair(idx):
    """comparison + (all_different | second comparison): index = (c1*(|M|+2) + c2)*|triples| + dom"""
    M = cmp_menu_small()
    extra = [("alldiff", (0, 1, 2)), ("alldiff", (0, 1))]
    d = idx % len(DOM_TRIPLES)
    k = idx // len(DOM_TRIPLES)
    second = k % (len(M) + 2)
    first = M[k // (len(M) + 2)]
    c2 = extra[second - len(M)] if second >= len(M) else M[second]
    return DOM_TRIPLES[d], [first, c2]


def size_pair():
    M = cmp_menu_small()
    return len(M) * (len(M) + 2) * len(DOM_TRIPLES)


def space_alldiff(idx):
    nv = 2 + idx % 2
    k = idx // 2
    ds = [DOMS[x] for x in digits(k, len(DOMS), 3)]
    return tuple(ds), [("alldiff", tuple(range(nv)))]


AD4_DOMS = ((1, 3), (1, 4), (0, 2), (2, 4), (2, 2))


def space_alldiff4(idx):
    """all_different over four (then five) variables with domains of three to four values: models in which a value of one
    variable is in its domain, survives propagation, and still extends to no solution"""
    if idx < 5**4:
        return tuple(AD4_DOMS[x] for x in digits(idx, 5, 4)), [("alldiff", (0, 1, 2, 3))]
    return tuple(AD4_DOMS[x] for x in digits(idx - 5**4, 5, 5)), [("alldiff", (0, 1, 2, 3, 4))]


def size_alldiff4():
    return 5**4 + 5**5


WIDE_DOMS = ((0, 1), (0, 2), (1, 2))


def space_alldiff_wide(idx):
    """all_different over 7 variables, each with one of three narrow domains (a value then lies in the domain of up to seven
    variables: at-most-one groups of size 7), followed by the three models with 10 variables of equal domains"""
    if idx < 3**7:
        return tuple(WIDE_DOMS[x] for x in digits(idx, 3, 7)), [("alldiff", tuple(range(7)))]
    return tuple([WIDE_DOMS[idx - 3**7]] * 10), [("alldiff", tuple(range(10)))]


def size_alldiff_wide():
    return 3**7 + 3


def space_alldiff7_full(idx):
    """all_different over 7 variables with the full domain 0..6 (every value lies in seven domains; 5040 solutions):
    0 = nothing else, 1 = x0..x5 pinned to 0..5 by equality constraints, 2 = pinned to 6..1, 3 = x1..x6 pinned"""
    cons = [("alldiff", tuple(range(7)))]
    if idx == 1:
        cons += [("cmp", "==", ("v", i), ("c", i)) for i in range(6)]
    elif idx == 2:
        cons += [("cmp", "==", ("v", i), ("c", 6 - i)) for i in range(6)]
    elif idx == 3:
        cons += [("cmp", "==", ("v", i), ("c", i)) for i in range(1, 7)]
    return tuple([(0, 6)] * 7), cons


def space_cumulative5(idx):
    """five unit-duration tasks that can all run at time 0 or 1, demands over {1,2,4}, capacity 3..6:
    index = dem_code*4 + cap"""
    cap = 3 + idx % 4
    dem = [(1, 2, 4)[x] for x in digits(idx // 4, 3, 5)]
    return tuple([(0, 1)] * 5), [("cumulative", (0, 1, 2, 3, 4), (1, 1, 1, 1, 1), tuple(dem), cap)]


def size_cumulative5():
    return 3**5 * 4


SUM_DOMS = ((0, 2), (-1, 1), (1, 3))


def space_sum(idx, nterms):
    """index = ((dom_code*3 + kind)*T + target_offset) ; T = 12 target slots from min-1 upward (clipped at max+1)"""
    T = 3 * nterms + 4
    off = idx % T
    k = idx // T
    kind = ("eq", "le", "ge")[k % 3]
    ds = [SUM_DOMS[x] for x in digits(k // 3, 3, nterms)]
    lo = sum(d[0] for d in ds)
    target = lo - 1 + off
    return tuple(ds), [("sum", kind, tuple(range(nterms)), target)]


def size_sum(nterms):
    return 3**nterms * 3 * (3 * nterms + 4)


def intervals(lo, hi):
    return [(a, b) for a in range(lo, hi + 1) for b in range(a, hi + 1)]


def space_circuit(idx, n, outside):
    iv = intervals(-1, n) if outside else intervals(0, n - 1)
    ds = [iv[x] for x in digits(idx, len(iv), n)]
    return tuple(ds), [("circuit", tuple(range(n)))]


def size_circuit(n, outside):
    return len(intervals(-1, n) if outside else intervals(0, n - 1)) ** n


NO_DOMS = ((0, 2), (1, 3), (0, 0), (0, 3))


def space_no_overlap(idx, n):
    ds = [NO_DOMS[x] for x in digits(idx, 4, n)]
    dur = digits(idx // 4**n, 3, n)
    return tuple(ds), [("no_overlap", tuple(range(n)), tuple(dur))]


def size_no_overlap(n):
    return 4**n * 3**n


CU_DOMS = ((0, 2), (0, 3), (1, 3))


def space_cumulative(idx, n, fixed_dom=None, durs=(1, 2, 3), dems=(1, 2)):
    """index = (((dom*3^n + dur)*2^n + dem)*3 + cap)"""
    cap = 1 + idx % 3
    k = idx // 3
    dem = [dems[x] for x in digits(k % 2**n, 2, n)]
    k //= 2**n
    dur = [durs[x] for x in digits(k % 3**n, 3, n)]
    k //= 3**n
    if fixed_dom:
        ds = [fixed_dom] * n
    else:
        ds = [CU_DOMS[x] for x in digits(k, 3, n)]
    return tuple(ds), [("cumulative", tuple(range(n)), tuple(dur), tuple(dem), cap)]


def size_cumulative(n, fixed_dom=None):
    return (1 if fixed_dom else 3**n) * 3**n * 2**n * 3


def space_cumulative_pair(idx):
    """two cumulative constraints (two resources) over the same three tasks in one model: shared durations over {1,2},
    demands over {1,2} per resource, capacities 1..3 each, start windows 0..2 or 0..3:
    index = ((((dom*8 + dur)*8 + dem1)*8 + dem2)*3 + cap1)*3 + cap2"""
    cap2 = 1 + idx % 3
    k = idx // 3
    cap1 = 1 + k % 3
    k //= 3
    dem2 = [(1, 2)[x] for x in digits(k % 8, 2, 3)]
    k //= 8
    dem1 = [(1, 2)[x] for x in digits(k % 8, 2, 3)]
    k //= 8
    dur = [(1, 2)[x] for x in digits(k % 8, 2, 3)]
    dom = ((0, 2), (0, 3))[k // 8]
    return tuple([dom] * 3), [("cumulative", (0, 1, 2), tuple(dur), tuple(dem1), cap1), ("cumulative", (0, 1, 2), tuple(dur), tuple(dem2), cap2)]


def size_cumulative_pair():
    return 2 * 8 * 8 * 8 * 3 * 3


def space_global_pair(idx):
    """two global constraints of the same kind over overlapping variable sets of four variables in 0..2 (0..3 for
    no_overlap): index = kind_pair*81 + parameter code"""
    P = idx % 81
    kind = idx // 81
    a, b, c, d = digits(P, 3, 4)
    if kind == 0:  # two sums of different sense over {0,1,2} and {1,2,3}
        senses = ("eq", "le", "ge")
        return tuple([(0, 2)] * 4), [("sum", senses[a], (0, 1, 2), 1 + b), ("sum", senses[c], (1, 2, 3), 2 + d)]
    if kind == 1:  # two no_overlap groups sharing task 1
        return tuple([(0, 3)] * 4), [("no_overlap", (0, 1), (1 + a % 2, 1 + b % 2)), ("no_overlap", (1, 2, 3), (1 + b % 2, 1 + c % 2, d))]
    if kind == 2:  # all_different on {0,1,2} and a sum on {1,2,3}
        return tuple([(0, 2)] * 4), [("alldiff", (0, 1, 2)), ("sum", ("eq", "le", "ge")[a], (1, 2, 3), b + c + d)]
    # a cumulative and a no_overlap over the same three tasks
    return tuple([(0, 3)] * 3), [("cumulative", (0, 1, 2), (1 + a % 2, 1 + b % 2, 1 + c % 2), (1, 2, 1), 1 + d), ("no_overlap", (0, 1), (1 + a % 2, 1 + b % 2))]


def size_global_pair():
    return 4 * 81


def space_mixed(idx):
    """global + comparison on the same variables: index = (g*|M| + c)"""
    M = cmp_menu_small()
    G = [
        (((0, 2), (0, 2), (0, 2)), ("sum", "eq", (0, 1, 2), 3)),
        (((0, 2), (0, 2), (0, 2)), ("sum", "le", (0, 1, 2), 2)),
        (((0, 2), (0, 2), (0, 2)), ("circuit", (0, 1, 2))),
        (((0, 3), (0, 3), (0, 3)), ("no_overlap", (0, 1, 2), (1, 2, 1))),
        (((0, 2), (0, 2), (0, 2)), ("cumulative", (0, 1, 2), (2, 1, 2), (1, 2, 1), 2)),
        (((-1, 1), (1, 3), (0, 2)), ("sum", "ge", (0, 1, 2), 3)),
    ]
    g = G[idx // len(M)]
    return g[0], [g[1], M[idx % len(M)]]


def size_mixed():
    return 6 * len(cmp_menu_small())
