"""C06 - the CP-to-SAT encoding has exactly the models of the CP problem (engine E1 over programs).

The CNF is captured by wrapping the name `solve_sat` in solvor.cp_encoder (looked up at call time); it is then judged
by the harness's own DPLL, independently of solvOR's SAT solver: for every assignment a of the named variables,
CNF AND enc(a) is satisfiable  <=>  a satisfies the CP constraints (evaluated on the harness's AST); and no model of
the CNF gives a named variable two values or none.
"""

from __future__ import annotations

import importlib
import itertools

from checks import cplib
from checks.c05 import SPACES, _jsonable, _tuplify
from vf import satref
from vf.core import Job, new_result, viol
from vf.guard import SolverHang, too_many_hangs
from vf.guard import call as gcall

LEVEL = "exploration"
RULE = (
    "E1 over programs: every model of the declared spaces (comparisons over every expression shape, pairs, "
    "all_different, sum_eq/le/ge with 1-5 terms, circuit with arbitrary successor domains, no_overlap, cumulative incl. "
    ">10 candidate literals per time point) is encoded by the real SATEncoder; the captured CNF is decided by a reference "
    "DPLL under the unit assumptions of every assignment of the named variables (soundness and completeness per "
    "assignment) and under 'two values' / 'no value' assumptions per named variable. Non-trivial = the model has at "
    "least one solution and one non-solution."
)
ASSUMPTIONS = [
    "IntVar.bool_vars is read to know which boolean stands for 'variable = value' (the encoder's variable interface); "
    "constraint tuples are never read",
    "reference DPLL (vf/satref.py), cross-checked against truth tables on every CNF with <= 12 variables it meets",
    "an early INFEASIBLE (empty clause found before solve_sat is called) counts as an unsatisfiable CNF",
]

_CAPTURE = {"clauses": None}
_WRAPPED = [False]


def install_capture():
    if _WRAPPED[0]:
        return
    enc = importlib.import_module("solvor.cp_encoder")
    real = enc.solve_sat

    def spy(clauses, **kw):
        _CAPTURE["clauses"] = [list(c) for c in clauses]
        return real(clauses, **kw)

    enc.solve_sat = spy
    _WRAPPED[0] = True


def judge(doms, cons):
    m, xs, ok = cplib.make_model(doms, cons)
    if not ok:
        return None, "skipped", False
    return judge_model(m, xs, doms, cons)


def judge_model(m, xs, doms, cons):
    install_capture()
    _CAPTURE["clauses"] = None
    try:
        res = gcall(lambda: m.solve(solver="sat"), 5.0, 50_000_000)
    except SolverHang as ex:
        return [("nontermination", str(ex))], "hang", False
    except Exception as ex:  # noqa: BLE001
        return [("raised", f"{type(ex).__name__}: {ex}")], "raised", False
    cnf = _CAPTURE["clauses"]
    sols = set(cplib.solutions(doms, cons))
    names = "xyzuvwabcdefgh"[: len(doms)]
    total = 1
    for lo, hi in doms:
        total *= hi - lo + 1
    nontrivial = 0 < len(sols) < total
    errs = []
    if cnf is None:
        # encoder found an empty clause itself: CNF unsatisfiable
        if res.status.name != "INFEASIBLE":
            errs.append(("no_cnf", f"solve_sat was not called but the status is {res.status.name}"))
        if sols:
            a = sorted(sols)[0]
            errs.append(("missing_model", f"the encoder declares the CNF unsatisfiable (empty clause) but {dict(zip(names, a))} satisfies the CP constraints"))
        return errs, "early_infeasible", nontrivial
    nv = max((abs(l) for c in cnf for l in c), default=0)
    if nv <= 12:
        # oracle self-check: DPLL verdict equals truth table verdict
        vs = satref.variables(cnf)
        tt = bool(satref.all_models(cnf, vs)[0]) if not any(len(c) == 0 for c in cnf) else False
        if (satref.dpll(cnf) is not None) != tt:
            from vf.core import HarnessError

            raise HarnessError(f"reference DPLL disagrees with the truth table on {cnf}")
    for a in itertools.product(*[range(lo, hi + 1) for lo, hi in doms]):
        assum = [xs[i].bool_vars[v] for i, v in enumerate(a)]
        sat = satref.dpll(cnf, assum) is not None
        if sat and a not in sols:
            broken = [cplib.show_con(c) for c in cons if not cplib.holds(c, a)]
            errs.append(("extra_model", f"the CNF has a model decoding to {dict(zip(names, a))}, which breaks {broken}"))
            break
        if not sat and a in sols:
            errs.append(("missing_model", f"{dict(zip(names, a))} satisfies the CP constraints but the CNF has no model decoding to it"))
            break
    if not errs and sols:
        for i, x in enumerate(xs):
            lits = list(x.bool_vars.values())
            for p, q in itertools.combinations(lits, 2):
                if satref.dpll(cnf, [p, q]) is not None:
                    errs.append(("two_values", f"the CNF has a model in which {names[i]} takes two values"))
                    break
            if satref.dpll(cnf, [-l for l in lits]) is not None:
                errs.append(("no_value", f"the CNF has a model in which {names[i]} takes no value"))
            if errs:
                break
    return errs, f"cnf_{'sat' if sols else 'unsat'}", nontrivial


def _chunk(params, lo, hi):
    name, off = params
    decode = SPACES[name][0]
    r = new_result()
    for idx in range(lo, hi):
        doms, cons = decode(idx + off)
        errs, label, nt = judge(doms, cons)
        if errs is None:
            r["counters"]["skipped_unbuildable_or_constant"] += 1
            continue
        r["n"] += 1
        r["outcomes"][label] += 1
        if label == "hang":
            r["counters"]["hangs"] += 1
        if nt:
            r["nontrivial"] += 1
        wit = {"domains": [list(d) for d in doms], "constraints": [_jsonable(c) for c in cons]}
        if not r["samples"]:
            r["samples"].append(dict(wit, shown=[cplib.show_con(c) for c in cons]))
        for kind, detail in errs:
            r["violations"].append(viol("SATEncoder", kind, wit, f"domains {doms}, constraints {[cplib.show_con(c) for c in cons]}: {detail}"))
        if len(r["violations"]) >= 40 or r["counters"]["hangs"] >= 2 or too_many_hangs():
            r["capped"] = True
            break
    return r


def run_incremental(r, idx):
    """History of one Model (the C05 family): build and solve, add a variable and constraints, encode again. The CNF
    of the *second* encoding is judged. index = ((a*|B| + b)*3 + wdom)*2 + s1"""
    from solvor.cp import Model

    from checks.c05 import INC_A, INC_B, INC_WDOM, NAMES

    s1 = ("sat", "auto")[idx % 2]
    k = idx // 2
    wd = INC_WDOM[k % 3]
    k //= 3
    cb = INC_B[k % len(INC_B)]
    ca = INC_A[k // len(INC_B)]
    doms1 = ((0, 2), (0, 2), (0, 2))
    m = Model()
    xs = [m.int_var(lo, hi, NAMES[i]) for i, (lo, hi) in enumerate(doms1)]
    for c in ca:
        cplib.add_to_model(m, c, xs)
    wit = {"incremental": idx, "first": [_jsonable(c) for c in ca], "second": [_jsonable(c) for c in cb], "w_domain": list(wd), "solver1": s1}
    txt = f"model x,y,z in 0..2 with {[cplib.show_con(c) for c in ca]} solved with {s1}; then u in {wd} and {[cplib.show_con(c) for c in cb]} added and encoded again"
    r["n"] += 1
    try:
        gcall(lambda: m.solve(solver=s1), 5.0, 50_000_000)
        xs.append(m.int_var(wd[0], wd[1], NAMES[3]))
        for c in cb:
            cplib.add_to_model(m, c, xs)
    except Exception as ex:  # noqa: BLE001
        r["outcomes"]["incremental:raised"] += 1
        r["violations"].append(viol("SATEncoder", "raised" if not isinstance(ex, SolverHang) else "nontermination", wit, f"{txt}: {type(ex).__name__}: {ex}"))
        return
    errs, label, nt = judge_model(m, xs, doms1 + (wd,), ca + cb)
    r["outcomes"]["incremental:" + label] += 1
    if nt:
        r["nontrivial"] += 1
    if not r["samples"]:
        r["samples"].append(wit)
    for kind, detail in errs:
        r["violations"].append(viol("SATEncoder", kind, wit, f"{txt}: {detail}"))


def _inc_chunk(params, lo, hi):
    r = new_result()
    for idx in range(lo, hi):
        run_incremental(r, idx)
        if len(r["violations"]) >= 40 or too_many_hangs():
            r["capped"] = True
            break
    return r


def plan(tier, seed):
    q = tier == "quick"
    b4 = (seed % 4, 4) if q else None
    b8 = (seed % 8, 8) if q else None
    out = [
        ("cmp2", b4),
        ("cmp3", b8),
        ("pair", (seed % 16, 16) if q else (seed % 2, 2)),
        ("alldiff", None),
        ("mixed", None),
        ("sum1", None),
        ("sum2", None),
        ("sum3", None),
        ("sum4", b4),
        ("sum5", (seed % 16, 16) if q else b4),
        ("circuit2", None),
        ("circuit3", None),
        ("circuit4", b4),
        ("circuit2_outside", None),
        ("circuit3_outside", None),
        ("no_overlap2", None),
        ("no_overlap3", None),
        ("cumulative1", None),
        ("cumulative2", None),
        ("cumulative3", b8),
        ("alldiff4_5", None),
        ("alldiff_wide", (seed % 8, 8) if q else None),
        ("cumulative5_unit", None),
        ("cumulative_pair", None),
        ("global_pair", None),
        ("cumulative2_dur013", None),
        ("cumulative2_dem02", None),
        ("cumulative3_dur013", b8),
        ("cumulative4_window03", (seed % 16, 16) if q else b4),
        ("cumulative3_window05", (seed % 16, 16) if q else b4),
    ]
    if not q:
        out += [("circuit4_outside", (seed % 8, 8)), ("circuit5", (seed % 8, 8))]
    return out


def jobs(tier, seed):
    js = []
    for name, block in plan(tier, seed):
        size = SPACES[name][1]()
        lo, hi = 0, size
        label = name
        if block:
            b, nb = block
            lo, hi = size * b // nb, size * (b + 1) // nb
            label = f"{name}_block{b}of{nb}"
        js.append(Job(label, hi - lo, _chunk, (name, lo), describe=f"model space '{name}' ({size} models){' - rotating block (VERIF_SEED), enumerated completely' if block else ''}"))
    from checks.c05 import INC_A, INC_B

    js.append(Job("incremental_encode", len(INC_A) * len(INC_B) * 3 * 2, _inc_chunk, None, describe="histories of one Model object: build, solve (sat/auto), add a variable and constraints; the CNF of the second encoding is judged (8 first parts x 8 second parts x 3 domains x 2 first solvers)"))
    return js


def replay(v):
    w = v["witness"]
    if "incremental" in w:
        r = new_result()
        run_incremental(r, w["incremental"])
        return r["violations"][0] if r["violations"] else None
    doms = tuple(tuple(d) for d in w["domains"])
    cons = [_tuplify(c) for c in w["constraints"]]
    errs, _, _ = judge(doms, cons)
    if errs:
        return {"function": "SATEncoder", "kind": errs[0][0], "detail": errs[0][1]}
    return None
