#!/venv/bin/python
"""Regenerates /verif/MANIFEST.json from the table below (one row per property)."""

import json
import os

VERIF = os.path.dirname(os.path.dirname(os.path.abspath(__file__)))

E1 = "bounded-exhaustive input-space enumeration (small-scope model checking of the real code against a brute-force oracle)"
E2 = "stateless model checking: exhaustive DFS of the choice tree of RNG answers and objective-function answers, replayed on the real solver"
E3 = "explicit-state BFS over operation histories of the real object, reference-model comparison in every state"

CHECKS = {
    "C12": dict(
        built=True,
        category="exploration",
        engine="E1",
        technique=E1 + ", differential: backend='python' is the reference model of backend='rust' (and of the default) on every "
        "ordered edge list of a small space; the PyO3 extension is rebuilt offline from rust/ of the working tree into an overlay package",
        text="For each of the nine accelerated functions every ordered edge list of <=3 (<=4 unweighted) edges on 3 nodes and <=2 (3) "
        "on 4 nodes, every source/target, directed and undirected, allow_forest, damping and max_iter variants: statuses equal, "
        "distances / reachable sets / total weights / SCC partitions equal, paths and orders valid for the same graph, PageRank "
        "scores within the contraction bound, default backend identical to rust. The extension is built with cargo --offline from "
        "the working tree's rust/ (hash-keyed cache) and combined with symlinks to the working tree's python sources.",
        note="Trusts: cargo/rustc offline toolchain in the image, the overlay assembly in tools/build_rust.sh. The stale .so lying in "
        "/repo/solvor is never loaded by this check. Bound: <=4 nodes, <=4 edges.",
        ref="2/C12",
    ),
    "C19": dict(
        built=True,
        category="model_checking",
        engine="E2",
        technique="stateless model checking of the choice tree: every answer of the solver's random generator and every answer of the "
        "objective function (memoised oracle over a small value alphabet) enumerated per solver driver; mirror and determinism replays",
        text="Schedules (random decision sequences) and all deterministic objective functions are the quantifier: for one small driver "
        "per solver the complete tree of RNG answers x objective answers is executed on the real solver (or the tree up to a "
        "stated number of deviations), each leaf judged for 'returned point was evaluated, objective is f there in the user's sign, "
        "nothing evaluated is better, evaluations = calls, inside bounds', then replayed under minimize=False on -f for the "
        "mirror-image clause and (every 97th) twice for determinism; powell/bfgs/lbfgs on a finite family of deterministic "
        "functions; real seeds in separate processes with different PYTHONHASHSEED.",
        note="Trusts: vf/e2.py (ScriptedRandom menus are an alphabet bound: 5 floats for random(), 3 for uniform()); objective "
        "values from {0,1,2}; horizons of 1-3 iterations. Continuous effects (GP numerics, golden section) are only covered as far as "
        "these alphabets drive them.",
        ref="2/C19",
    ),
    "C18": dict(
        built=True,
        category="model_checking",
        engine="E1+E2+E3",
        technique="explicit-state BFS over the real destroy/repair operators with every answer of their random generator enumerated "
        "(E3+E2), plus bounded-exhaustive job lists with all RNG answers of the local search (E1+E2); invariant and independent "
        "objective recomputation in every state",
        text="Histories are the quantifier for the VRPTW bookkeeping: from VRPState.from_problem, breadth-first search over the nine "
        "exported operators, each call expanded over all answers of its generator, evaluates 'unassigned xor routed, never twice, "
        "single-vehicle on one route, depot nowhere, arrival times consistent, argument not mutated' in every reached state for a "
        "complete family of 3-customer instances. Job shop: all job lists with <=3 jobs x <=2 operations, five rules, local search with "
        "every randrange/choice answer. solve_vrptw: RNG answers to 2 deviations and real seeds, objective recomputed independently.",
        note="Trusts: the invariant and objective re-implementation in checks/c18.py, ScriptedRandom menus (stated in evidence). "
        "Bound: depth 3 (4), 3 customers, 2 vehicles (3 in one family), solve_vrptw also under caller-set objective weights (zero included) and progress stops; float menus of random() are a 5-value alphabet.",
        ref="2/C18",
    ),
    "C17": dict(
        built=True,
        category="exploration",
        engine="E1+E4",
        technique=E1 + "; all small cutting-stock instances (and covering column subsets in custom mode), exact optimum by dynamic "
        "programming over remaining-demand vectors; fuel for termination",
        text="All instances with roll width 3..8, 1-3 piece sizes in 1..W (equal sizes allowed) and demands in {0..3}^m for "
        "solve_cg, widths 3..6 for solve_bp, and every covering subset of <=3 maximal patterns as initial columns with an exact "
        "enumerating pricing function: every pattern fits, every demand is met, objective = rolls used >= true minimum, and "
        "OPTIMAL only at the true minimum.",
        note="Trusts: BFS over demand vectors with all feasible patterns. Exceptions in custom mode are not judged. Bound: W <= 8 (two sizes up to W=16, three sizes with demands from {1,3,5} up to W=20 in blocks), also under max_iter / max_nodes / on_progress limits; "
        "(10 thorough), demands <= 3.",
        ref="2/C17",
    ),
    "C05": dict(
        built=True,
        category="exploration",
        engine="E1",
        technique=E1 + " over programs: every CP model of a declared grammar x solver x solution_limit x hints, brute-force oracle on "
        "the harness's own constraint AST",
        text="Programs are the quantifier: every model of the grammar (one comparison with both sides ranging over ~40 expression "
        "shapes, constraint pairs, all_different, sum_eq/le/ge with 1-5 terms and every target, circuit with arbitrary successor "
        "domains, no_overlap, cumulative incl. >10 candidate literals) is built through the public operators and solved by auto, "
        "dfs and sat with limits 1/3/10^6 and four kinds of hints; every returned assignment is evaluated and INFEASIBLE is "
        "compared with emptiness of the brute-force solution set.",
        note="Trusts: the 60-line evaluator in checks/cplib.py. Bound: <= 5 variables, domain width <= 6. Single-node circuits "
        "and comparisons of two constants are outside the space.",
        ref="2/C05",
    ),
    "C06": dict(
        built=True,
        category="exploration",
        engine="E1",
        technique=E1 + " over programs: CNF captured from the real encoder, decided per named-variable assignment by a reference DPLL "
        "(soundness and completeness of the encoding, exactly-one decoding)",
        text="For every model of the same program spaces the CNF handed to solve_sat is captured and, for every assignment of the "
        "named variables, CNF AND enc(a) is decided by a reference DPLL and compared with the harness's evaluation of the CP "
        "constraints (nothing extra, nothing missing); 'two values' and 'no value' of a named variable must be unsatisfiable. This "
        "is independent of solvOR's own SAT solver.",
        note="Trusts: vf/satref.py DPLL (self-checked against truth tables on small CNFs) and reading IntVar.bool_vars. Quick tier "
        "enumerates rotating complete blocks of the larger spaces.",
        ref="2/C05",
    ),
    "C09": dict(
        built=True,
        category="exploration",
        engine="E1+E4",
        technique=E1 + "; all small networks x all demands / balanced supply vectors, oracle = enumeration of all integral arc flows; "
        "fuel for termination",
        text="Ordered arc lists with parallel and anti-parallel arcs on 3 nodes (caps {0,1,2}, costs {-1,0,1,2}) and arc sets on 4 "
        "nodes, filtered to networks without negative cycles, crossed with every (source, sink, demand 0..3) for min_cost_flow and "
        "every balanced supply vector over {-2..2} for network_simplex; all r x c cost matrices (r,c<=3) for solve_assignment. "
        "Integrality, pooled capacity, conservation, objective = cost of the returned flow = exact minimum, INFEASIBLE iff no "
        "feasible flow, agreement of the two solvers, termination.",
        note="Trusts: brute-force enumeration of arc flows (<= 81 per network). Bound: <= 4 nodes, <= 4 arcs, capacities <= 2; 5-node layered unit-capacity networks with <= 6 arcs for min_cost_flow; network_simplex also under max_iter 1..3; a slice over assorted node labels.",
        ref="2/C09",
    ),
    "C04": dict(
        built=True,
        category="exploration",
        engine="E1",
        technique=E1 + "; all small MILPs x integer subsets x configuration menu, exact oracle = lattice enumeration inside the exact "
        "bounding box x exact rational LP over the continuous coordinates",
        text="All MILPs with <=2 variables and <=2 rows over A in {-1,0,1,2}, b in {-1..3}, c in {-1,0,1,2}, every subset of integer "
        "variables, min and max, heuristics on/off; the configuration menu (warm starts incl. infeasible by a row, by sign, fractional, "
        "wrong length; solution_limit; LNS seeds) on every instance whose root relaxation is fractional; 3-variable families with "
        "explicit binary bounds and with rows that only look like binary bounds; a 2x2 space with entries 3/-3 (node LPs with thirds); iteration and node limits (max_iter 1..3, max_nodes 1..2); ordered call pairs under the same LNS seed and warm start. Every returned point is checked for Ax<=b, x>=0, "
        "integrality and objective = c.x; OPTIMAL/INFEASIBLE/UNBOUNDED are compared with the exact verdict.",
        note="Trusts: vf/lpref.py (exact rational LP) and lattice enumeration. Instances with an integer variable unbounded in the "
        "relaxation but a bounded objective are filtered out; for relaxation-unbounded instances only UNBOUNDED claims and returned "
        "points are judged.",
        ref="2/C04",
    ),
    "C03": dict(
        built=True,
        category="exploration",
        engine="E1",
        technique=E1 + "; all small LPs over integer alphabets, exact rational vertex-enumeration oracle with duality self-check",
        text="All LPs with (n,m) up to (2,2) over A in {-1,0,1,2}, b in {-2..2}, c in {-1,0,1,2}, all (2,3),(3,2),(1,3),(3,1) shapes and "
        "complete blocks of the 3x3 shape over {-1,0,1}, (2,2) and (3,2) shapes with entries 3/-3 (tableaux with thirds, i.e. rounding residue), every 4th LP also under max_iter 1..3 (1..8 for the interior point), min and max: solve_lp's status must equal the exact verdict and its point "
        "must be feasible with objective = c.x = exact optimum; solve_lp_interior must never raise, never say OPTIMAL without a "
        "matching optimum, and any FEASIBLE answer must be within the 0.01 residual.",
        note="Trusts: Gaussian elimination over fractions.Fraction (oracle aborts as broken if strong duality fails). Bound: "
        "<= 3 variables, <= 3 rows, coefficients in {-3..3}, right-hand sides up to 6; MAX_ITER from solve_lp is exempt and counted.",
        ref="2/C03",
    ),
    "C16": dict(
        built=True,
        category="exploration",
        engine="E1",
        technique=E1 + "; all small item lists, subset / set-partition oracles in exact rationals",
        text="All knapsack instances with <=4 items over values, weights {0..3}, capacities 0..6, min and max, plus a decimal "
        "family; all bin-packing instances with <=6 items of size 0..4 and capacities 1..6 and a decimal family (sizes 0.1..0.9), "
        "for the four heuristics. Index validity, capacity, objective = sum, OPTIMAL => no better subset; every item in one bin, "
        "loads <= capacity, bins numbered 0..k-1, k >= ceil(total/capacity), 11/9 OPT + 6/9 for the decreasing variants and "
        "OPTIMAL => k = OPT, with OPT from all set partitions.",
        note="Trusts: subset and partition enumeration in fractions.Fraction. Decimal data is judged with the solver's own 1e-9 "
        "tolerance and against the intended one-digit decimals.",
        ref="2/C16",
    ),
    "C07": dict(
        built=True,
        category="exploration",
        engine="E1+E4",
        technique=E1 + "; all 0/1 matrices up to 4x4 (and blocks of 5x4/4x5) x secondary subsets x limits, row-subset oracle, "
        "cover/uncover LIFO-restoration tap on the real link structure",
        text="All matrices with r,c <= 4 crossed with every subset of secondary columns and find_all; max_solutions / max_iter / "
        "column-naming crossed on r,c <= 3 and on all 4x4 matrices; complete blocks of 5x4 and 4x5. Each selection is checked "
        "to be an exact cover, find_all lists are compared with the set of all covers, INFEASIBLE with emptiness, input "
        "immutability and repeatability are checked, and every _uncover must restore the snapshot taken before its _cover.",
        note="Trusts: row-subset enumeration. The tap names the module-level helpers _build_links/_cover/_uncover; if they "
        "disappear the black-box oracle still decides. Bound: <= 20 cells.",
        ref="2/C07",
    ),
    "C11": dict(
        built=True,
        category="exploration",
        engine="E1",
        technique=E1 + "; all small weighted digraphs and all grids with <=12 cells, simple-path/simple-cycle enumeration oracle",
        text="Every digraph on 3 nodes over weights {absent,0,1,2} (+self loops), parallel-edge lists, 4-node graphs with <=4 arcs, "
        "negative-weight families, each with every (source,target), goal as value/predicate, max_iter/max_cost limits, three consistent "
        "heuristics and three label types, through dijkstra, astar, bfs, dfs, bellman_ford, floyd_warshall and the edge-list forms; "
        "every obstacle layout of every grid with <=12 cells x every free start/goal pair x 4/8 directions x every admissible built-in "
        "heuristic plus a terrain-cost family. Distances, INFEASIBLE/UNBOUNDED verdicts and path validity are compared with "
        "brute-force enumeration.",
        note="Trusts: simple-path / simple-cycle enumeration and fixpoint relaxation on grids. Bound: n <= 4, weights in {-2..2,5}, "
        "<=12 cells. Readings fixed to avoid demanding more than the statement: max_cost beyond the true distance and MAX_ITER "
        "under an explicit small max_iter are accepted.",
        ref="2/C11",
    ),
    "C15": dict(
        built=True,
        category="exploration",
        engine="E1+E4",
        technique=E1 + "; all graphs on <=5 nodes x all node orders (incl. asymmetric listings), definitional oracles",
        text="All simple graphs on <=5 nodes under all 120 node orders and both neighbour orders, all 4^6 asymmetric listings "
        "on 4 nodes, arbitrary neighbour sequences (self loops, duplicates), outside neighbours; all digraphs on <=4 nodes x 3 "
        "dampings for pagerank (callback and edge-list form), all graphs on <=5 nodes x 3 resolutions for louvain. Each answer "
        "is compared with the literal definition (delete and count components, iterated deletion, equation residual <= n*tol, "
        "recomputed modularity); louvain termination by fuel.",
        note="Trusts: union-find component counting, the contraction bound for the PageRank residual. Bound: n <= 5 (6 thorough); slices over orderable tuple labels (fresh objects at every use).",
        ref="2/C15",
    ),
    "C14": dict(
        built=True,
        category="exploration",
        engine="E1",
        technique=E1 + "; all digraphs on <=4 nodes x all node orders, reachability-closure oracle",
        text="All 65536 digraphs with self loops on 4 nodes (and all smaller ones) under every node iteration order and both "
        "neighbour orders, duplicate-neighbour lists, neighbours outside the declared node set, and complete blocks of the "
        "5-node space; the SCC partition, sinks-first order, topological order / INFEASIBLE verdict and the condensation "
        "(nodes, exact edge set) are compared with the definition computed from the reachability closure.",
        note="Trusts: a bitmask transitive closure. Bound: n <= 5; a slice over labels of assorted hashable types (fresh objects at every use).",
        ref="2/C14",
    ),
    "C13": dict(
        built=True,
        category="exploration",
        engine="E1",
        technique=E1 + "; all small weighted graphs incl. duplicate edges/self loops, oracle = minimum over all acyclic edge subsets",
        text="All graphs on <=4 nodes over weights {absent,-1,0,1,2}, all graphs on 5 nodes over {absent,1,2}, self-loop and "
        "ordered duplicate-edge families; kruskal in 4 edge orders x allow_forest, prim from every start node and with string "
        "labels; tree-ness, membership of returned edges in the input multiset, objective = sum = exact minimum, and the "
        "INFEASIBLE / FEASIBLE-forest verdicts are checked in every case.",
        note="Trusts: brute-force forest enumeration. Bound: n <= 5, integer weights; None/falsy/tuple/float and big-int/long-string labels as fresh objects.",
        ref="2/C13",
    ),
    "C08": dict(
        built=True,
        category="exploration",
        engine="E1",
        technique=E1 + "; all small capacitated digraphs, min-cut oracle by subset enumeration",
        text="All 531441 digraphs on 4 labelled nodes with per-pair capacity absent/1/2 (4 source/sink pairs, both adjacency "
        "orders), all unit graphs with <=7 arcs on 5 and 6 nodes (the 6-node space holds the smallest inputs on which the pinned "
        "tree was wrong), ordered arc lists with parallel arcs, zero capacities and non-integer labels; the returned flow is "
        "checked for capacity, conservation, sink inflow = objective and objective = exact min cut.",
        note="Trusts: max-flow/min-cut theorem and a 15-line subset-enumeration cut oracle. Bound: <=6 nodes, capacities <=2; labels incl. None and equal-but-not-identical objects.",
        ref="2/C08",
    ),
    "C10": dict(
        built=True,
        category="exploration",
        engine="E1",
        technique=E1 + "; all matrices over small integer/dyadic alphabets up to 4x4, permutation oracle",
        text="Every matrix of the declared shapes/alphabets (all 3x3 over {-1,0,1,2}, all 2x2 and 1xk/kx1 over six values incl. "
        "1/2 and negatives, all 2x3..4x2, all 0/1 4x4, rotating complete blocks of 3x4/4x3) is solved for min and max and compared "
        "with the optimum over all injective assignments; matching shape, -1 convention and objective = sum are checked exactly.",
        note="Trusts: itertools.permutations oracle. Bound: sizes <= 4x4 and the listed alphabets (incl. {0, 2^-40, 1}: optimality is judged exactly in Fraction); ordered call pairs.",
        ref="2/C10",
    ),
    "C01": dict(
        built=True,
        category="exploration",
        engine="E1+E4",
        technique=E1 + "; every CNF x configuration of the declared spaces, returned assignments evaluated clause by clause",
        text="Within the bound the check is the universally quantified statement: every clause-set of <=4 clauses over the "
        "complete 26-clause universe on 3 variables (both clause orders) crossed with 224 configurations, ordered literal "
        "sequences with duplicates/tautologies, renumbered variables, pigeonhole/parity families under every renaming, and "
        "2^11-model enumerations that drive reduce_db; 8.4M solver runs per quick pass.",
        note="Trusts: clause evaluation of a dict (10 lines). Formulas with more than 4 variables are reached only via the "
        "structured families; default tuning with >100 conflicts only via luby_factor in {1,2}.",
        ref="2/C01",
    ),
    "C02": dict(
        built=True,
        category="exploration",
        engine="E1+E4",
        technique=E1 + "; truth-table oracle for verdicts, sys.monitoring tap on analyze() for entailment of every learned clause, "
        "fuel (jump-event budget) for termination",
        text="Same spaces as C01; INFEASIBLE/OPTIMAL/MAX_ITER are compared with the truth table of formula AND assumptions, "
        "MAX_ITER must be justified by the number of analysed conflicts, each learned clause is checked for entailment, and a call "
        "that does not return is confirmed by a deterministic fuel budget rather than wall-clock.",
        note="Trusts: truth-table enumeration; the tap depends on the nested function name analyze (evidence says when it could "
        "not attach). One open known finding: [[]] answers OPTIMAL {} (pinned by the repository's own test).",
        ref="2/C01",
    ),
    "C20": dict(
        built=True,
        category="model_checking",
        engine="E3",
        technique=E3 + "; UnionFind searched to closure, FenwickTree depth-bounded",
        text="Every reachable concrete state of the real UnionFind for n<=6 (7 thorough) is visited (closure, so histories of any "
        "length) and every operation in every state agrees with a partition model; FenwickTree: every history of "
        "updates/queries up to depth 4 (5) from every initial vector over {0,1,-2}^n, n<=5, agrees with a plain list. "
        "Histories are the quantifier, so explicit-state search is the matching level.",
        note="Trusts: Python semantics, deepcopy-faithful cloning of the objects, the 30-line reference models. Bounds: n and the "
        "delta alphabet; larger n (UnionFind trees deeper than 2) are reached only by the union-only space.",
        ref="2/C20",
    ),
}

# additions of later waves, appended to the claim text of the property (kept apart so that the table above stays readable)
ADDED = {
    "C01": " Added: Tseitin CNFs of n x n array multipliers (n = 10..13, product = square of a prime: one model, hundreds to thousands of conflicts per call under default tuning) and guarded pigeonhole formulas, judged against models known by construction.",
    "C02": " Added: the same multiplier / guarded-pigeonhole instances; every learned clause of those runs must hold in every known model (for the one-model multipliers this is entailment), INFEASIBLE on them is a violation.",
    "C03": " Added: the interior-point solver on all 2x2 LPs with entries 3/-3 (parallel contradictory rows scaled by 3: the fastest-diverging infeasible / unbounded inputs). Wave 10: eps configurations for both LP solvers.",
    "C04": " Added: four integer variables in 0..2 with a covering row (minimise) or a knapsack row (maximise) - trees of about ten LP nodes, incumbents found while dominated and non-dominated nodes wait, integral LP bounds with float residue; two variables whose single-variable rows are x_j <= 1 or -x_j <= -1. Wave 9: two integer variables in the box 0..3 with every integer point as warm start (entries 2 and 3 meeting the rounding / swap local search). Wave 11: 0/1 knapsack and covering problems with 10-24 binaries and a DP optimum, heuristics on/off, objective negated with the sense flipped, LNS passes.",
    "C05": " Added: two global constraints of one kind in the same model (two cumulative resources of different capacity, two sums, two no_overlap groups); models with 1100-1500 decision variables (deeper than the interpreter's recursion limit). Wave 9: all_different over 4-5 variables with 3-4 values each and the full hint menu (hints that survive propagation but extend to no solution). Wave 11: models with 8-24 variables satisfiable (or infeasible) by construction - hidden permutations, queens, long sums, circuits, unary and cumulative machines - under auto, dfs and sat.",
    "C06": " Added: two cumulative constraints over the same tasks with different capacities and other pairs of global constraints in one model.",
    "C07": " Added: matrices whose unique cover has 1200-1500 rows (search depth beyond the interpreter's recursion limit). Wave 9: integer column names that are a non-identity permutation of the positions.",
    "C08": " Added: 36 rerouting-chain networks (an arc filled, emptied and needed again) with the maximum flow in closed form.",
    "C09": " Added: cost alphabets with one arc priced 10^10 next to costs -2 and 5 (tolerances that scale with the cost sum). Wave 9: costs of 2^53+1 with exact (rational) comparison of the reported cost. Wave 11: node-disjoint path networks (15-60 nodes), dense 8-12 node networks whose only cheap shortcut is listed last and bare chains with a dear direct arc, minimum cost in closed form for every demand, three arc-list orders, both solvers.",
    "C10": " Added: cost alphabets far from zero with a small spread ({6..9}, {20,21,30}, {100,140}). Wave 10: ramps max(0, j-i) up to 30x30 and product matrices (i+1)(j+1) with more columns than rows (optimum by the rearrangement inequality).",
    "C11": " Added: all 2^22 obstacle layouts of 4x6 and 6x4 grids with corner-to-corner queries (thorough; a rotating 1/8 block in quick) - the smallest grids on which two 8-neighbour routes differ by 3*sqrt(2)-4; dense convex graphs on 30-40 nodes (labels improved dozens of times); neighbour functions returning one-shot iterables.",
    "C12": " Added: eight functions on paths / cycles of 120 000 nodes with every back-end in its own interpreter (a native stack overflow kills only the child and is reported); weights a rounding error away from zero-weight cycles; a call that returns under neither back-end is a violation. Wave 9: a chain whose edges name the new node first, closed by a heavier edge (kruskal asks for the far end last).",
    "C13": " Added: complete graphs on 36 and 60 nodes and a 3-node multigraph with 270 parallel edges (Prim queues of several hundred entries), four Prim start nodes each. Wave 9: K64, Prim from every eighth node on dense graphs, a 1500-node chain whose edges name the new node first.",
    "C14": " Added: node collections and neighbour answers given as one-shot iterables (generators); a path of 5000 nodes, a cycle of 3000 and a chain of 600 triangles with classes known in closed form. Wave 10: lollipops (a path of L nodes into a cycle, L around 16 / 32 / 64) and fans (w sources released at once, one duplicate edge).",
    "C15": " Added: unordered labels including None (articulation_points, k-cores), one-shot iterables, a path of 3000 nodes / 130 bow-ties / a 1500-cycle with a tail of 1000 in closed form, pagerank tolerances 1e-2 .. 1e-15 with the residual computed exactly.",
    "C17": " Added: roll widths 1500-2000 with two piece sizes around a third of the width (pricing tables wider than 1000 units); one order solved for every roll width up to 12 and back in one process; the pieces of two rolls of width 16 cut into 3-4 pieces each with unit demands (optimum 2 by construction, degenerate masters).",
    "C18": " Added: route_removal with n_routes=2 as a tenth operator of the BFS; solve_job_shop under on_progress stops.",
    "C19": " Added: differential evolution with steps longer than the box is wide (mutation factor 2, two difference vectors). Wave 9: objective values that are Python integers beyond 2^53 (the solver must hand the user's own number back).",
    "C20": " Added: Fenwick values of very different magnitude (1 and 2^-40, all sums exact), i.e. differences far below any absolute tolerance. Wave 9: size 0 under both constructors; 1500 unions without a read in which the growing component is always the second argument.",
}

NOT_BUILT_REASON = "check not built yet (work in progress in this session; the design in DESIGN.md section 2 applies)"

ALL = ["C%02d" % i for i in range(1, 21)]


def main():
    checks = []
    na = []
    for pid in ALL:
        c = CHECKS.get(pid)
        if not c or not c.get("built"):
            na.append({"property_id": pid, "reason": (c or {}).get("na_reason", NOT_BUILT_REASON)})
            continue
        checks.append(
            {
                "property_id": pid,
                "quick_cmd": f"./check {pid} --tier quick",
                "thorough_cmd": f"./check {pid} --tier thorough",
                "evidence_file": f"/verif/evidence/{pid}.json",
                "replay_cmd_template": f"./check {pid} --replay {{path}}",
                "engine": c["engine"],
                "level_claimed": {"category": c["category"], "text": c["text"] + ADDED.get(pid, ""), "design_ref": "DESIGN.md section " + c["ref"]},
                "level_note": c["note"],
                "technique": c["technique"],
            }
        )
    man = {
        "version": 1,
        "setup_cmd": "./setup.sh",
        "hooks": {
            "guard": "SOLVOR_VERIF",
            "enable": "no source hooks: checks observe the unmodified working tree through module-level wrapping and "
            "sys.monitoring; ./check exports SOLVOR_VERIF=1 for symmetry only",
            "baseline_off_cmd": "cd /repo && /venv/bin/python -m pytest -ra -q -p no:cacheprovider --timeout=900 "
            "--continue-on-collection-errors",
            "source_commits": [],
            "add_only": True,
        },
        "engines": [
            {"name": "E1", "path": "vf/core.py", "kind_free_text": E1, "serves_properties": [p for p in ALL if CHECKS.get(p, {}).get("engine", "").startswith("E1") and CHECKS[p].get("built")]},
            {"name": "E2", "path": "vf/e2.py", "kind_free_text": E2, "serves_properties": [p for p in ALL if "E2" in CHECKS.get(p, {}).get("engine", "") and CHECKS[p].get("built")]},
            {"name": "E3", "path": "vf/snap.py", "kind_free_text": E3, "serves_properties": [p for p in ALL if "E3" in CHECKS.get(p, {}).get("engine", "") and CHECKS[p].get("built")]},
        ],
        "checks": checks,
        "not_applicable": na,
        "notes": "All checks run the real code in /repo's working tree in a fresh interpreter (PYTHONHASHSEED=0). "
        "VERIF_SEED never selects random cases; it only rotates which additional completely-enumerated block the quick tier adds.",
    }
    with open(os.path.join(VERIF, "MANIFEST.json"), "w") as f:
        json.dump(man, f, indent=1)
        f.write("\n")
    import jsonschema  # noqa: F401  (only in the tooling venv; validate when available)


if __name__ == "__main__":
    try:
        main()
    except ModuleNotFoundError:
        pass
