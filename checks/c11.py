"""C11 - shortest-path solvers return true distances and real paths (engine E1)."""

from __future__ import annotations

import itertools
from math import comb, sqrt

from vf.combi import combinations_range, digits, fresh
from vf.core import Job, new_result, viol
from vf.guard import guarded, too_many_hangs

LEVEL = "exploration"
RULE = (
    "E1: every weighted digraph of each declared space (all 4^9 graphs on 3 nodes incl. self loops over weights "
    "{absent,0,1,2}; parallel-edge lists; 4 nodes with <=4 arcs; negative-weight families for bellman_ford / "
    "floyd_warshall) x every (source,target) pair, goal as value and as predicate, max_iter / max_cost limits, three "
    "consistent heuristics for astar, three label types; every obstacle layout of every grid with <=12 cells (<=9 in "
    "quick for the full heuristic cross) x every free start/goal pair x 4/8-neighbour mode x every admissible built-in "
    "heuristic, plus a two-terrain cost family. Oracle: minimum weight over all simple paths; negative cycles by "
    "enumeration of simple cycles; grids by relaxation to a fixpoint. Non-trivial = the target is reachable by at least "
    "two simple paths of different weight, or a negative cycle exists, or the target is unreachable from a source with "
    "outgoing arcs."
)
ASSUMPTIONS = [
    "n <= 4 nodes, weights in {-2..2,5}; grids with <= 12 cells",
    "max_cost: the exact answer is demanded iff the true distance <= max_cost; beyond it INFEASIBLE or any genuine path "
    "with a faithful objective is accepted (the statement defines no more)",
    "max_iter too small: MAX_ITER is accepted, any other answer must still be correct",
    "a path is a node sequence; with parallel edges its weight is taken over the cheapest parallel edge",
]

INF = float("inf")


# ------------------------------------------------------------------------------------------ oracle


def simple_path_dists(n, w, s):
    """min weight over all simple paths s->t for every t (w[u][v] = weight or None); t==s -> 0"""
    best = [INF] * n
    best[s] = 0

    def rec(u, seen, d):
        for v in range(n):
            x = w[u][v]
            if x is None or seen >> v & 1:
                continue
            nd = d + x
            if nd < best[v]:
                best[v] = nd
            rec(v, seen | 1 << v, nd)

    rec(s, 1 << s, 0)
    return best


def reach_set(n, w, s):
    seen = {s}
    stack = [s]
    while stack:
        u = stack.pop()
        for v in range(n):
            if w[u][v] is not None and v not in seen:
                seen.add(v)
                stack.append(v)
    return seen


def negative_cycle_nodes(n, w):
    """set of nodes lying on some simple cycle of negative total weight (self loops included)"""
    bad = set()
    for s in range(n):

        def rec(u, seen, d, path):
            for v in range(n):
                x = w[u][v]
                if x is None:
                    continue
                if v == s:
                    if d + x < 0:
                        bad.update(path)
                elif v > s and not seen >> v & 1:
                    rec(v, seen | 1 << v, d + x, path + [v])

        rec(s, 1 << s, 0, [s])
    return bad


def min_w(n, arcs):
    w = [[None] * n for _ in range(n)]
    for u, v, x in arcs:
        if w[u][v] is None or x < w[u][v]:
            w[u][v] = x
    return w


def check_path(path, s, goalset, w, objective, lab_inv):
    try:
        p = [lab_inv[x] for x in path]
    except Exception:  # noqa: BLE001
        return f"path {path} has unknown nodes"
    if not p or p[0] != s:
        return f"path {path} does not start at the source"
    if p[-1] not in goalset:
        return f"path {path} does not end at a goal"
    tot = 0
    for a, b in zip(p, p[1:]):
        if w[a][b] is None:
            return f"path {path} uses the non-existent edge {a}->{b}"
        tot += w[a][b]
    if abs(tot - objective) > 1e-9:
        return f"path {path} has weight {tot} but objective is {objective}"
    return None


LABELS = [None, ["a", "b", "c", "d"], [("p", 0), ("p", 1), ("q", 0), ("q", 1)], [None, 0, "", (2,)], [1000, "node-b", (1, (2, 3)), 2.5], [-1, -2, ("p", -1), ("p", -2)]]  # falsy / None labels; big int, long string, nested tuple


def _run_nonneg(r, n, arcs, full):
    """All solvers that need non-negative weights on one graph (arcs: ordered list, parallel edges allowed)."""
    from solvor.a_star import astar
    from solvor.bellman_ford import bellman_ford
    from solvor.bfs import bfs, bfs_edges, dfs, dfs_edges
    from solvor.dijkstra import dijkstra, dijkstra_edges
    from solvor.floyd_warshall import floyd_warshall
    from solvor.types import Status

    w = min_w(n, arcs)
    hop = [[(1 if w[u][v] is not None else None) for v in range(n)] for u in range(n)]
    D = [simple_path_dists(n, w, s) for s in range(n)]
    H = [simple_path_dists(n, hop, s) for s in range(n)]
    adjw = [[] for _ in range(n)]
    adju = [[] for _ in range(n)]
    for u, v, x in arcs:
        adjw[u].append((v, x))
        adju[u].append(v)
    wit = {"n": n, "arcs": [list(a) for a in arcs]}
    nontrivial = False
    for s in range(n):
        cnt = [set() for _ in range(n)]
        # cheap non-triviality: some target with distance strictly below some other simple path is hard to count
        # exactly here; use: reachable target at distance != hop distance, or unreachable target while s has out-arcs
        for t in range(n):
            if t != s and ((D[s][t] == INF and adjw[s]) or (D[s][t] != INF and D[s][t] != H[s][t])):
                nontrivial = True

    def emit(fname, kind, detail, extra=None):
        wv = dict(wit, function=fname)
        if extra:
            wv.update(extra)
        r["violations"].append(viol(fname, kind, wv, f"{fname} on n={n} arcs={arcs} {extra or ''}: {detail}"))

    def count(fname, label):
        r["n"] += 1
        r["outcomes"][f"{fname}:{label}"] += 1
        if nontrivial:
            r["nontrivial"] += 1

    def judge_single(fname, res, s, goalset, dist_row, weighted, extra, max_cost=None, limited=False, opt_status=Status.OPTIMAL):
        """generic verdict for single-pair searches"""
        true = min((dist_row[t] for t in goalset), default=INF)
        count(fname, res.status.name)
        if res.status == Status.MAX_ITER:
            if not limited:
                emit(fname, "max_iter_without_limit", f"MAX_ITER with the default iteration limit (true distance {true})", extra)
            return
        if res.status == Status.INFEASIBLE:
            if true != INF and (max_cost is None or true <= max_cost):
                emit(fname, "wrong_infeasible", f"INFEASIBLE but the goal is at distance {true}", extra)
            return
        if res.status not in (Status.OPTIMAL, Status.FEASIBLE):
            emit(fname, "bad_status", f"status {res.status.name}", extra)
            return
        if true == INF:
            emit(fname, "path_to_unreachable", f"returned {res.solution} but the goal is unreachable", extra)
            return
        ww = w if weighted else hop
        msg = check_path(res.solution, s, goalset, ww, res.objective, inv)
        if msg:
            emit(fname, "bad_path", msg, extra)
            return
        if opt_status == Status.OPTIMAL:
            if res.objective != true and (max_cost is None or true <= max_cost):
                emit(fname, "not_shortest", f"objective {res.objective}, true shortest distance {true}", extra)
            if res.status != Status.OPTIMAL:
                emit(fname, "bad_status", f"status {res.status.name} for an exact answer", extra)

    label_sets = LABELS if full else LABELS[:1]
    for li, labs in enumerate(label_sets):
        lab = (lambda x: fresh(labs[x])) if labs else (lambda x: x)  # equal, not identical, objects at every use
        inv = {lab(x): x for x in range(n)}
        nbw = lambda u: [(lab(v), x) for v, x in adjw[inv[u]]]  # noqa: E731
        nbu = lambda u: [lab(v) for v in adju[inv[u]]]  # noqa: E731
        if li == 1:  # string labels: every neighbour answer is a one-shot iterable (a generator), a legal Iterable value
            nbw = lambda u: ((lab(v), x) for v, x in adjw[inv[u]])  # noqa: E731
            nbu = lambda u: (lab(v) for v in adju[inv[u]])  # noqa: E731
        for s in range(n):
            goals = [("value", t, {t}) for t in range(n)]
            if full and li == 0:
                goals.append(("pred2", None, {n - 1, max(0, n - 2)}))
                goals.append(("pred0", None, set()))
            for gk, t, gset in goals:
                if gk == "value":
                    g = lab(t)
                else:
                    g = (lambda gs: (lambda x: inv[x] in gs))(gset)
                extra = {"source": s, "goal": sorted(gset), "goal_kind": gk, "labels": li}
                limits = [({}, False)]
                if full and li == 0 and gk == "value":
                    limits += [({"max_iter": 1}, True), ({"max_iter": 2}, True), ({"max_iter": 3}, True)]
                for kw, limited in limits:
                    ex = dict(extra, **kw)
                    try:
                        judge_single("dijkstra", dijkstra(lab(s), g, nbw, **kw), s, gset, D[s], True, ex, limited=limited)
                    except Exception as e:  # noqa: BLE001
                        emit("dijkstra", "raised", f"{type(e).__name__}: {e}", ex)
                    if g is None:
                        continue  # for bfs/dfs the goal value None means "no goal": a node labelled None cannot be a value goal
                    try:
                        judge_single("bfs", bfs(lab(s), g, nbu, **kw), s, gset, H[s], False, ex, limited=limited)
                    except Exception as e:  # noqa: BLE001
                        emit("bfs", "raised", f"{type(e).__name__}: {e}", ex)
                    try:
                        judge_single("dfs", dfs(lab(s), g, nbu, **kw), s, gset, H[s], False, ex, limited=limited, opt_status=Status.FEASIBLE)
                    except Exception as e:  # noqa: BLE001
                        emit("dfs", "raised", f"{type(e).__name__}: {e}", ex)
                if full and li == 0 and gk == "value":
                    for mc in (0, 1, 3):
                        ex = dict(extra, max_cost=mc)
                        try:
                            judge_single("dijkstra", dijkstra(lab(s), g, nbw, max_cost=mc), s, gset, D[s], True, ex, max_cost=mc)
                            judge_single("astar", astar(lab(s), g, nbw, lambda x: 0, max_cost=mc), s, gset, D[s], True, ex, max_cost=mc)
                        except Exception as e:  # noqa: BLE001
                            emit("dijkstra", "raised", f"{type(e).__name__}: {e}", ex)
                # astar with consistent heuristics: 0, h*, min(h*,1)   (h* = exact distance to the goal set)
                if gset:
                    hstar = [min(D[x][t2] for t2 in gset) for x in range(n)]
                    hs = [("zero", lambda x: 0.0), ("exact", lambda x: hstar[inv[x]] if hstar[inv[x]] != INF else 0.0), ("cap1", lambda x: min(hstar[inv[x]], 1.0))]
                    for hn, h in hs if (full or li == 0) else hs[:1]:
                        ex = dict(extra, heuristic=hn)
                        try:
                            judge_single("astar", astar(lab(s), g, nbw, h), s, gset, D[s], True, ex)
                        except Exception as e:  # noqa: BLE001
                            emit("astar", "raised", f"{type(e).__name__}: {e}", ex)
        if li == 0:
            # edge-list variants (python backend), bellman_ford and floyd_warshall on the same graph
            el3 = [(u, v, float(x)) for u, v, x in arcs]
            el2 = [(u, v) for u, v, x in arcs]
            inv = {x: x for x in range(n)}
            try:
                fw = floyd_warshall(n, el3, backend="python")
                count("floyd_warshall", fw.status.name)
                if fw.status != Status.OPTIMAL or fw.solution != [[float(x) if x != INF else INF for x in D[s]] for s in range(n)]:
                    emit("floyd_warshall", "wrong_distances", f"status {fw.status.name}, matrix {fw.solution}, true {D}")
            except Exception as e:  # noqa: BLE001
                emit("floyd_warshall", "raised", f"{type(e).__name__}: {e}")
            for s in range(n):
                try:
                    res = dijkstra_edges(n, el3, s, backend="python")
                    count("dijkstra_edges", "all")
                    want = {t: D[s][t] for t in range(n) if D[s][t] != INF}
                    if res.solution != want:
                        emit("dijkstra_edges", "wrong_distances", f"distances {res.solution}, true {want}", {"source": s})
                    res = bellman_ford(s, el3, n, backend="python")
                    count("bellman_ford", res.status.name)
                    if res.status != Status.OPTIMAL or res.solution != want:
                        emit("bellman_ford", "wrong_distances", f"status {res.status.name} distances {res.solution}, true {want}", {"source": s})
                    res = bfs_edges(n, el2, s, backend="python")
                    count("bfs_edges", "all")
                    wr = sorted(t for t in range(n) if H[s][t] != INF)
                    if res.solution != wr:
                        emit("bfs_edges", "wrong_reachable", f"reachable {res.solution}, true {wr}", {"source": s})
                    res = dfs_edges(n, el2, s, backend="python")
                    count("dfs_edges", "all")
                    if res.solution != wr:
                        emit("dfs_edges", "wrong_reachable", f"reachable {res.solution}, true {wr}", {"source": s})
                    r0 = bfs(s, None, lambda u: adju[u])
                    if set(r0.solution) != set(wr):
                        emit("bfs", "wrong_reachable", f"visited {r0.solution}, true {wr}", {"source": s})
                    for t in range(n):
                        ex = {"source": s, "goal": [t], "goal_kind": "value", "labels": 0}
                        judge_single("dijkstra_edges", dijkstra_edges(n, el3, s, target=t, backend="python"), s, {t}, D[s], True, ex)
                        judge_single("bellman_ford", bellman_ford(s, el3, n, target=t, backend="python"), s, {t}, D[s], True, ex)
                        judge_single("bfs_edges", bfs_edges(n, el2, s, target=t, backend="python"), s, {t}, H[s], False, ex)
                        judge_single("dfs_edges", dfs_edges(n, el2, s, target=t, backend="python"), s, {t}, H[s], False, ex, opt_status=Status.FEASIBLE)
                except Exception as e:  # noqa: BLE001
                    emit("edges_variants", "raised", f"{type(e).__name__}: {e}", {"source": s})
    if not r["samples"]:
        r["samples"].append(wit)


def _run_negative(r, n, arcs):
    """bellman_ford and floyd_warshall with negative weights."""
    from solvor.bellman_ford import bellman_ford
    from solvor.floyd_warshall import floyd_warshall
    from solvor.types import Status

    w = min_w(n, arcs)
    neg = negative_cycle_nodes(n, w)
    el3 = [(u, v, float(x)) for u, v, x in arcs]
    wit = {"n": n, "arcs": [list(a) for a in arcs]}
    nontrivial = bool(neg) or any(x < 0 for _, _, x in arcs)

    def emit(fname, kind, detail, extra=None):
        wv = dict(wit, function=fname)
        if extra:
            wv.update(extra)
        r["violations"].append(viol(fname, kind, wv, f"{fname} on n={n} arcs={arcs} {extra or ''}: {detail}"))

    def count(fname, label):
        r["n"] += 1
        r["outcomes"][f"{fname}:{label}"] += 1
        if nontrivial:
            r["nontrivial"] += 1

    inv = {x: x for x in range(n)}
    for s in range(n):
        reach = reach_set(n, w, s)
        unb = bool(neg & reach)
        dist = None if unb else simple_path_dists(n, w, s)
        for t in [None] + list(range(n)):
            ex = {"source": s, "target": t}
            try:
                res = bellman_ford(s, el3, n, target=t, backend="python")
            except Exception as e:  # noqa: BLE001
                emit("bellman_ford", "raised", f"{type(e).__name__}: {e}", ex)
                continue
            count("bellman_ford", res.status.name)
            if unb:
                if res.status != Status.UNBOUNDED:
                    emit("bellman_ford", "negative_cycle_missed", f"a negative cycle through {sorted(neg & reach)} is reachable, status {res.status.name}", ex)
                continue
            if res.status == Status.UNBOUNDED:
                emit("bellman_ford", "false_negative_cycle", "UNBOUNDED but no negative cycle is reachable from the source", ex)
                continue
            if t is None:
                want = {x: float(dist[x]) for x in range(n) if dist[x] != INF}
                if res.status != Status.OPTIMAL or res.solution != want:
                    emit("bellman_ford", "wrong_distances", f"status {res.status.name}, {res.solution}, true {want}", ex)
            elif dist[t] == INF:
                if res.status != Status.INFEASIBLE:
                    emit("bellman_ford", "path_to_unreachable", f"status {res.status.name} but target unreachable", ex)
            else:
                if res.status != Status.OPTIMAL:
                    emit("bellman_ford", "wrong_infeasible", f"status {res.status.name}, true distance {dist[t]}", ex)
                else:
                    msg = check_path(res.solution, s, {t}, w, res.objective, inv)
                    if msg:
                        emit("bellman_ford", "bad_path", msg, ex)
                    elif res.objective != dist[t]:
                        emit("bellman_ford", "not_shortest", f"objective {res.objective}, true {dist[t]}", ex)
    for directed in (True, False):
        if directed:
            w2, neg2 = w, neg
        else:
            w2 = min_w(n, list(arcs) + [(v, u, x) for u, v, x in arcs])
            neg2 = negative_cycle_nodes(n, w2)
            # an undirected negative edge is itself a negative closed walk
            if any(x < 0 for u, v, x in arcs):
                neg2 = neg2 | {0}
        try:
            res = floyd_warshall(n, el3, directed=directed, backend="python")
        except Exception as e:  # noqa: BLE001
            emit("floyd_warshall", "raised", f"{type(e).__name__}: {e}", {"directed": directed})
            continue
        count("floyd_warshall", res.status.name)
        if neg2:
            if res.status != Status.UNBOUNDED:
                emit("floyd_warshall", "negative_cycle_missed", f"negative cycle present, status {res.status.name}", {"directed": directed})
        elif res.status != Status.OPTIMAL:
            emit("floyd_warshall", "false_negative_cycle", f"status {res.status.name} without a negative cycle", {"directed": directed})
        else:
            want = [[float(x) for x in simple_path_dists(n, w2, s)] for s in range(n)]
            if res.solution != want:
                emit("floyd_warshall", "wrong_distances", f"matrix {res.solution}, true {want}", {"directed": directed})
    if not r["samples"]:
        r["samples"].append(wit)


def _merge(r, r2):
    r["n"] += r2["n"]
    r["nontrivial"] += r2["nontrivial"]
    r["outcomes"].update(r2["outcomes"])
    r["counters"].update(r2["counters"])
    r["violations"].extend(r2["violations"])
    if not r["samples"]:
        r["samples"].extend(r2["samples"][:1])


def _guarded_suite(r, fn, args, wit, what):
    """Run the whole solver suite for one graph/grid under one termination guard (alarm, then JUMP fuel)."""
    box = {}

    def go():
        box["r"] = new_result()
        fn(box["r"], *args)
        return True

    _, verdict = guarded(go, 20.0, 200_000_000)
    if verdict:
        r["n"] += 1
        r["outcomes"]["nontermination"] += 1
        r["counters"]["hangs"] += 1
        r["violations"].append(viol(what, "nontermination", wit, f"a solver of the {what} suite did not return within the fuel budget on {wit}"))
    else:
        _merge(r, box["r"])


def run_nonneg(r, n, arcs, full):
    _guarded_suite(r, _run_nonneg, (n, arcs, full), {"n": n, "arcs": [list(a) for a in arcs]}, "shortest_path")


def run_negative(r, n, arcs):
    _guarded_suite(r, _run_negative, (n, arcs), {"n": n, "arcs": [list(a) for a in arcs]}, "shortest_path")


def run_grid(r, rows, cols, cells, hmode, costs=None, pairs=None, only_dirs=None):
    grid = [list(cells[i * cols : (i + 1) * cols]) for i in range(rows)]
    _guarded_suite(r, _run_grid, (rows, cols, cells, hmode, costs, pairs, only_dirs), {"grid": grid, "costs": {str(k): v for k, v in (costs or {}).items()}}, "astar_grid")



# ------------------------------------------------------------------------------------ graph chunk fns


def _n3_chunk(params, lo, hi):
    alpha, full_mod = params[:2]
    loop_alpha = params[2] if len(params) > 2 else alpha
    pairs = [(u, v) for u in range(3) for v in range(3) if u != v]
    r = new_result()
    for idx in range(lo, hi):
        ds = digits(idx, len(alpha), 6)
        ls = digits(idx // len(alpha) ** 6, len(loop_alpha), 3)
        arcs = [(x, x, loop_alpha[d]) for x, d in enumerate(ls) if loop_alpha[d] is not None]
        arcs += [(pairs[i][0], pairs[i][1], alpha[d]) for i, d in enumerate(ds) if alpha[d] is not None]
        if idx % 2:
            arcs.reverse()
        run_nonneg(r, 3, arcs, full=(idx % full_mod == 0))
        if len(r["violations"]) >= 40 or r["counters"]["hangs"] >= 2 or too_many_hangs():
            r["capped"] = True
            break
    return r


def _par_chunk(params, lo, hi):
    """n=3 without self loops, each ordered pair in {absent,[1],[2],[1,2],[2,1],[0,5]}"""
    opts = [(), (1,), (2,), (1, 2), (2, 1), (0, 5)][:params]
    slots = [(u, v) for u in range(3) for v in range(3) if u != v]
    r = new_result()
    for idx in range(lo, hi):
        ds = digits(idx, len(opts), 6)
        arcs = [(slots[i][0], slots[i][1], x) for i, d in enumerate(ds) for x in opts[d]]
        run_nonneg(r, 3, arcs, full=False)
        if len(r["violations"]) >= 40 or r["counters"]["hangs"] >= 2 or too_many_hangs():
            r["capped"] = True
            break
    return r


P6 = [(0, 1, 4), (0, 2, 1), (2, 1, 2), (1, 3, 1), (2, 3, 5), (3, 4, 3), (1, 4, 6), (4, 5, 1), (3, 5, 5), (2, 4, 9), (0, 5, 12), (5, 0, 1)]


def _p6_chunk(params, lo, hi):
    """6 nodes, every subset of the 12 declared weighted arcs P6 (labels that are improved two and three times, stale
    queue entries, a long cheap path against short expensive ones) x arc order x weight mode (as listed / weight mod 3:
    zeros and ties). index = (subset*2 + order)*2 + mode"""
    r = new_result()
    for idx in range(lo, hi):
        mode = idx % 2
        order = idx // 2 % 2
        code = idx // 4
        arcs = [(u, v, x % 3 if mode else x) for b, (u, v, x) in enumerate(P6) if code >> b & 1]
        if order:
            arcs.reverse()
        run_nonneg(r, 6, arcs, full=False)
        if len(r["violations"]) >= 40 or r["counters"]["hangs"] >= 2 or too_many_hangs():
            r["capped"] = True
            break
    return r


def _ladder_chunk(params, lo, hi):
    """4 nodes with bundles of parallel arcs whose weights form ladders: 4 x 0->2 and 5 x 2->1 (each bundle listed with
    decreasing or increasing weights, so that a label is improved up to five times and the queue holds up to ten entries
    for four nodes), plus 0->1, 1->3 and 2->3. index = ((((b1*4 + b2)*4 + w01)*4 + w13)*4 + w23)*4 + order_bits"""
    r = new_result()
    for idx in range(lo, hi):
        ob = idx % 4
        ds = digits(idx // 4, 4, 5)
        w23, w13, w01, b2, b1 = (1 + d for d in ds)
        l1 = [(0, 2, b1 + k) for k in (3, 2, 1, 0)]
        l2 = [(2, 1, b2 + k) for k in (4, 3, 2, 1, 0)]
        if ob & 1:
            l1.reverse()
        if ob & 2:
            l2.reverse()
        arcs = l1 + [(0, 1, w01 + 6)] + l2 + [(1, 3, w13), (2, 3, w23 + 4)]
        run_nonneg(r, 4, arcs, full=False)
        if len(r["violations"]) >= 40 or r["counters"]["hangs"] >= 2 or too_many_hangs():
            r["capped"] = True
            break
    return r


def _stale_queue_chunk(params, lo, hi):
    """4 nodes: four parallel arcs 0->2 with decreasing weights (gaps from {1,8}), a direct arc 0->3 placed at each of
    the five positions of node 0's list, five parallel arcs 2->1 with decreasing weights (gaps from {1,7}), and 1->3:
    when node 2 is settled the queue holds three stale entries, the direct entry for the target and five entries for
    node 1 - the target's entry must wait although it is already queued.
    index = ((((g1*2 + b1)*16 + g2)*7 + d)*5 + pos)*2 + w13"""
    r = new_result()
    for idx in range(lo, hi):
        w13 = 1 + idx % 2
        k = idx // 2
        pos = k % 5
        k //= 5
        d = 8 + k % 7
        k //= 7
        g2 = digits(k % 16, 2, 4)
        k //= 16
        b1 = 1 + k % 2
        g1 = digits(k // 2, 2, 3)
        w = b1
        l1 = [w]
        for g in g1:
            w += (1, 8)[g]
            l1.append(w)
        w = 9
        l2 = [w]
        for g in g2:
            w += (1, 7)[g]
            l2.append(w)
        out0 = [(0, 2, x) for x in reversed(l1)]
        out0.insert(pos, (0, 3, d))
        arcs = [(2, 1, x) for x in reversed(l2)] + out0 + [(1, 3, w13)]
        run_nonneg(r, 4, arcs, full=False)
        if len(r["violations"]) >= 40 or r["counters"]["hangs"] >= 2 or too_many_hangs():
            r["capped"] = True
            break
    return r


def large_graphs():
    """larger structured digraphs (name, n, arcs): chains walked from either end, a grid, complete graphs with modular
    weights, a layered graph - sizes at which queues hold dozens of entries and rounds are counted in tens"""
    out = []
    n = 40
    out.append(("chain_down_40", n, [(i + 1, i, 1 + i % 3) for i in range(n - 1)]))
    out.append(("chain_up_40_with_shortcuts", n, [(i, i + 1, 2) for i in range(n - 1)] + [(i, i + 5, 11) for i in range(0, n - 5, 5)]))
    g = 6
    ge = []
    for i in range(g):
        for j in range(g):
            for di, dj in ((0, 1), (1, 0), (0, -1), (-1, 0)):
                a, b = i + di, j + dj
                if 0 <= a < g and 0 <= b < g:
                    ge.append((i * g + j, a * g + b, (i * 3 + j * 5 + di + 2 * dj) % 7 + 1))
    out.append(("grid6x6", g * g, ge))
    for k, (a, b, m) in ((9, (1, 3, 17)), (11, (3, 1, 19))):
        out.append((f"K{k}_directed", k, [(i, j, (a * i * j + b * (i + 2 * j)) % m + 1) for i in range(k) for j in range(k) if i != j]))
    # dense graphs in which a label is improved many times before it is settled (queues far longer than the node count)
    out.append(("convex_dag_40", 40, [(i, j, (j - i) ** 2) for i in range(40) for j in range(i + 1, 40)]))
    out.append(("convex_circulant_30", 30, [(i, j, ((j - i) % 30) ** 2) for i in range(30) for j in range(30) if i != j]))
    lay = []
    for L in range(5):
        for x in range(4):
            for y in range(4):
                lay.append((1 + L * 4 + x, 1 + (L + 1) * 4 + y, (L + 2 * x + 3 * y) % 5 + 1) if L < 4 else (1 + L * 4 + x, 21, x + 1))
    lay += [(0, 1 + x, x + 1) for x in range(4)]
    out.append(("layered_4x5", 22, sorted(set(lay))))
    return out


def _fixpoint_dists(n, arcs, s):
    d = [INF] * n
    d[s] = 0
    changed = True
    while changed:
        changed = False
        for u, v, x in arcs:
            if d[u] != INF and d[u] + x < d[v]:
                d[v] = d[u] + x
                changed = True
    return d


def _run_large(r, name, n, arcs):
    from solvor.a_star import astar
    from solvor.bellman_ford import bellman_ford
    from solvor.dijkstra import dijkstra, dijkstra_edges
    from solvor.floyd_warshall import floyd_warshall
    from solvor.types import Status

    wit = {"large": name}
    adjw = [[] for _ in range(n)]
    for u, v, x in arcs:
        adjw[u].append((v, x))
    el3 = [(u, v, float(x)) for u, v, x in arcs]
    D = [_fixpoint_dists(n, arcs, s) for s in range(n)]

    def emit(fname, kind, detail):
        r["violations"].append(viol(fname, kind, dict(wit, function=fname), f"{fname} on {name}: {detail}"))

    def count(fname, label):
        r["n"] += 1
        r["nontrivial"] += 1
        r["outcomes"][f"large:{fname}:{label}"] += 1

    fw = floyd_warshall(n, el3, backend="python")
    count("floyd_warshall", fw.status.name)
    if fw.status != Status.OPTIMAL or fw.solution != [[float(x) if x != INF else INF for x in row] for row in D]:
        emit("floyd_warshall", "wrong_distances", f"status {fw.status.name}, matrix differs from the fixpoint distances")
    for s in sorted({0, 1, n // 2, n - 1}):
        want = {t: D[s][t] for t in range(n) if D[s][t] != INF}
        res = dijkstra_edges(n, el3, s, backend="python")
        count("dijkstra_edges", "all")
        if res.solution != want:
            emit("dijkstra_edges", "wrong_distances", f"from {s}: {res.solution}, true {want}")
        res = bellman_ford(s, el3, n, backend="python")
        count("bellman_ford", res.status.name)
        if res.status != Status.OPTIMAL or res.solution != want:
            emit("bellman_ford", "wrong_distances", f"from {s}: status {res.status.name}, {res.solution}, true {want}")
        for t in sorted({0, n // 3, n - 1}):
            for fname, fn in (("dijkstra", lambda: dijkstra(s, t, lambda u: adjw[u])), ("astar", lambda: astar(s, t, lambda u: adjw[u], lambda x: 0)), ("bellman_ford", lambda: bellman_ford(s, el3, n, target=t, backend="python")), ("dijkstra_edges", lambda: dijkstra_edges(n, el3, s, target=t, backend="python"))):
                res = fn()
                count(fname, res.status.name)
                if D[s][t] == INF:
                    if res.status != Status.INFEASIBLE:
                        emit(fname, "path_to_unreachable", f"{s}->{t}: status {res.status.name}")
                    continue
                if res.status != Status.OPTIMAL or res.objective != D[s][t]:
                    emit(fname, "not_shortest", f"{s}->{t}: status {res.status.name}, objective {res.objective}, true shortest distance {D[s][t]}")
                    continue
                path = res.solution
                cost = 0
                ok = path and path[0] == s and path[-1] == t
                for a, b in zip(path, path[1:]) if ok else ():
                    ws = [x for v, x in adjw[a] if v == b]
                    if not ws:
                        ok = False
                        break
                    cost += min(ws)
                if not ok or cost != D[s][t]:
                    emit(fname, "bad_path", f"{s}->{t}: path {path} is not a path of weight {D[s][t]}")
    if not r["samples"]:
        r["samples"].append(wit)


def _large_chunk(params, lo, hi):
    gs = large_graphs()
    r = new_result()
    for idx in range(lo, hi):
        name, n, arcs = gs[idx // 2]
        if idx % 2:
            arcs = list(reversed(arcs))
            name += "/reversed_list"
        _guarded_suite(r, _run_large, (name, n, arcs), {"large": name}, "shortest_path")
    return r


def _n4_chunk(params, lo, hi):
    """4 nodes, exactly k arcs (no self loops), weights over alpha: index = comb_index * |alpha|^k + weights"""
    k, alpha, negative = params
    slots = [(u, v) for u in range(4) for v in range(4) if u != v]
    per = len(alpha) ** k
    r = new_result()
    c_lo, c_hi = lo // per, (hi - 1) // per + 1
    for ci, c in enumerate(combinations_range(len(slots), k, c_lo, c_hi), start=c_lo):
        for wi in range(per):
            idx = ci * per + wi
            if idx < lo or idx >= hi:
                continue
            ds = digits(wi, len(alpha), k)
            arcs = [(slots[c[i]][0], slots[c[i]][1], alpha[ds[i]]) for i in range(k)]
            if negative:
                run_negative(r, 4, arcs)
            else:
                run_nonneg(r, 4, arcs, full=False)
        if len(r["violations"]) >= 40 or r["counters"]["hangs"] >= 2 or too_many_hangs():
            r["capped"] = True
            break
    return r


def _neg3_chunk(params, lo, hi):
    alpha, self_loops = params
    slots = [(u, v) for u in range(3) for v in range(3) if self_loops or u != v]
    r = new_result()
    for idx in range(lo, hi):
        ds = digits(idx, len(alpha), len(slots))
        arcs = [(slots[i][0], slots[i][1], alpha[d]) for i, d in enumerate(ds) if alpha[d] is not None]
        if idx % 2:
            arcs.reverse()
        run_negative(r, 3, arcs)
        if len(r["violations"]) >= 40 or r["counters"]["hangs"] >= 2 or too_many_hangs():
            r["capped"] = True
            break
    return r


# ------------------------------------------------------------------------------------------- grids

SQRT2 = sqrt(2)
D4 = [(-1, 0), (1, 0), (0, -1), (0, 1)]
D8 = D4 + [(-1, -1), (-1, 1), (1, -1), (1, 1)]


def grid_dists(grid, rows, cols, start, dirs, costs):
    dist = {start: 0.0}
    changed = True
    while changed:
        changed = False
        for (r0, c0), d in list(dist.items()):
            for dr, dc in dirs:
                nr, nc = r0 + dr, c0 + dc
                if 0 <= nr < rows and 0 <= nc < cols and grid[nr][nc] != 1:
                    base = costs.get(grid[nr][nc], 1.0)
                    if dr and dc:
                        base *= SQRT2
                    nd = d + base
                    if nd < dist.get((nr, nc), INF) - 1e-12:
                        dist[(nr, nc)] = nd
                        changed = True
    return dist


H4 = ["auto", "manhattan", "octile", "euclidean", "chebyshev"]
H8 = ["auto", "octile", "euclidean", "chebyshev"]


def _run_grid(r, rows, cols, cells, hmode, costs=None, pairs=None, only_dirs=None):
    from solvor.a_star import astar_grid
    from solvor.types import Status

    grid = [list(cells[i * cols : (i + 1) * cols]) for i in range(rows)]
    free = [(i, j) for i in range(rows) for j in range(cols) if grid[i][j] != 1]
    cm = costs or {}
    wit = {"grid": grid, "costs": {str(k): v for k, v in cm.items()}}
    for directions, dirs, hs in ((4, D4, H4), (8, D8, H8)):
        if only_dirs is not None and directions != only_dirs:
            continue
        hlist = hs if hmode == "all" else hs[:1]
        for s in free:
            if pairs is not None and not any(a == s for a, _ in pairs):
                continue
            dist = grid_dists(grid, rows, cols, s, dirs, cm)
            for g in free:
                if pairs is not None and (s, g) not in pairs:
                    continue
                true = dist.get(g, INF)
                for h in hlist:
                    r["n"] += 1
                    ex = {"start": list(s), "goal": list(g), "directions": directions, "heuristic": h}
                    try:
                        res = astar_grid(grid, s, g, directions=directions, heuristic=h, costs=costs)
                    except Exception as e:  # noqa: BLE001
                        r["violations"].append(viol("astar_grid", "raised", dict(wit, **ex), f"astar_grid({grid}, {ex}): {type(e).__name__}: {e}"))
                        continue
                    r["outcomes"][f"astar_grid{directions}:{res.status.name}"] += 1
                    if true == INF or (true > abs(s[0] - g[0]) + abs(s[1] - g[1]) and directions == 4):
                        r["nontrivial"] += 1
                    msg = None
                    if true == INF:
                        if res.status != Status.INFEASIBLE:
                            msg = ("path_to_unreachable", f"status {res.status.name} but the goal is unreachable")
                    elif res.status != Status.OPTIMAL:
                        msg = ("wrong_infeasible", f"status {res.status.name}, true distance {true}")
                    else:
                        p = res.solution
                        ok = bool(p) and tuple(p[0]) == s and tuple(p[-1]) == g
                        tot = 0.0
                        if ok:
                            for a, b in zip(p, p[1:]):
                                dr, dc = b[0] - a[0], b[1] - a[1]
                                if (dr, dc) not in dirs or not (0 <= b[0] < rows and 0 <= b[1] < cols) or grid[b[0]][b[1]] == 1:
                                    ok = False
                                    break
                                base = cm.get(grid[b[0]][b[1]], 1.0)
                                tot += base * (SQRT2 if dr and dc else 1.0)
                        if not ok:
                            msg = ("bad_path", f"path {p} is not a valid {directions}-neighbour path from {s} to {g}")
                        elif abs(tot - res.objective) > 1e-9:
                            msg = ("bad_path", f"path weight {tot} but objective {res.objective}")
                        elif abs(res.objective - true) > 1e-9:
                            msg = ("not_shortest", f"objective {res.objective}, true shortest distance {true}")
                    if msg:
                        r["violations"].append(viol("astar_grid", msg[0], dict(wit, **ex), f"astar_grid({grid}, {ex}, costs={costs}): {msg[1]}"))
    if not r["samples"]:
        r["samples"].append(dict(wit, function="astar_grid"))


def _grid_chunk(params, lo, hi):
    rows, cols, hmode = params
    r = new_result()
    for idx in range(lo, hi):
        cells = digits(idx, 2, rows * cols)
        run_grid(r, rows, cols, cells, hmode)
        if len(r["violations"]) >= 40 or r["counters"]["hangs"] >= 2 or too_many_hangs():
            r["capped"] = True
            break
    return r


def _corner_chunk(params, lo, hi):
    """corner-to-corner queries on larger grids: the two corner cells of one diagonal are free, every layout of the others"""
    rows, cols, diag, only_dirs, base = params
    r = new_result()
    a, b = ((0, 0), (rows - 1, cols - 1)) if diag == 0 else ((0, cols - 1), (rows - 1, 0))
    ia, ib = a[0] * cols + a[1], b[0] * cols + b[1]
    pairs = ((a, b), (b, a))
    for idx in range(lo, hi):
        ds = digits(base + idx, 2, rows * cols - 2)
        cells = []
        k = 0
        for i in range(rows * cols):
            if i in (ia, ib):
                cells.append(0)
            else:
                cells.append(ds[k])
                k += 1
        run_grid(r, rows, cols, cells, "auto", pairs=pairs, only_dirs=only_dirs)
        if len(r["violations"]) >= 40 or r["counters"]["hangs"] >= 2 or too_many_hangs():
            r["capped"] = True
            break
    return r


def _terrain_chunk(params, lo, hi):
    rows, cols = params
    r = new_result()
    for idx in range(lo, hi):
        cells = [(0, 1, 2)[d] for d in digits(idx, 3, rows * cols)]
        run_grid(r, rows, cols, cells, "auto", costs={0: 1.0, 2: 3.0})
        if len(r["violations"]) >= 40 or r["counters"]["hangs"] >= 2 or too_many_hangs():
            r["capped"] = True
            break
    return r


def jobs(tier, seed):
    js = []
    js.append(Job("large_structured", len(large_graphs()) * 2, _large_chunk, None, chunk=1, describe="chains of 40 nodes walked from either end, 6x6 grid, directed K9/K11 with modular weights, a 4x5 layered graph; both arc-list orders; reference: relaxation to a fixpoint"))
    js.append(Job("n4_stale_queue_entries", 8 * 2 * 16 * 7 * 5 * 2, _stale_queue_chunk, None, describe="4 nodes, two bundles of parallel arcs with decreasing weights and a direct arc to the target queued early: nine queue entries when the second node is settled"))
    js.append(Job("n4_parallel_weight_ladders", 4**5 * 4, _ladder_chunk, None, describe="4 nodes, bundles of 4 and 5 parallel arcs with laddered weights (labels improved up to five times), three more arcs, all base weights 1..4"))
    js.append(Job("n6_subsets_of_declared_arcs", 2 ** len(P6) * 4, _p6_chunk, None, describe=f"6 nodes, every subset of {P6}, both arc orders, weights as listed and mod 3; every solver, every (s,t)"))
    if tier == "thorough":
        js.append(Job("n3_nonneg_absent012", 4**9, _n3_chunk, ((None, 0, 1, 2), 8), describe="all digraphs on 3 nodes incl. self loops over {absent,0,1,2}; every 8th graph gets the full cross (labels, predicates, max_iter, max_cost, 3 heuristics), all get every (s,t) for every solver"))
    else:
        js.append(Job("n3_nonneg_absent012_loops01", 4**6 * 2**3, _n3_chunk, ((None, 0, 1, 2), 4, (None, 1)), describe="all digraphs on 3 nodes over {absent,0,1,2} with optional weight-1 self loops; every 4th graph gets the full cross (labels, predicates, max_iter, max_cost, 3 heuristics), all get every (s,t) for every solver"))
    js.append(Job("n3_parallel_edges", 5**6 if tier == "quick" else 6**6, _par_chunk, 5 if tier == "quick" else 6, describe="parallel edges of different weight in both orders"))
    for k in range(0, 5):
        al = (0, 1, 2) if (k < 4 or tier == "thorough") else (1, 2)
        js.append(Job(f"n4_nonneg_{k}arcs", comb(12, k) * len(al) ** k, _n4_chunk, (k, al, False), describe=f"4 nodes, k arcs, weights {al}"))
    js.append(Job("n3_negative_noloops", 6**6, _neg3_chunk, ((None, -2, -1, 0, 1, 2), False), describe="bellman_ford / floyd_warshall, weights {absent,-2..2}"))
    js.append(Job("n3_negative_selfloops", 4**9 if tier == "thorough" else 3**9, _neg3_chunk, ((None, -1, 0, 1) if tier == "thorough" else (None, -1, 1), True), describe="with self loops over {absent,-1,(0,)1}"))
    for k in range(0, 5):
        js.append(Job(f"n4_negative_{k}arcs", comb(12, k) * 3**k, _n4_chunk, (k, (-1, 0, 1), True), describe="4 nodes, k arcs, weights {-1,0,1}"))
    shapes_all = [(rr, cc) for rr in range(1, 10) for cc in range(1, 10) if rr * cc <= 9]
    for rr, cc in shapes_all:
        js.append(Job(f"grid_{rr}x{cc}_all_heuristics", 2 ** (rr * cc), _grid_chunk, (rr, cc, "all"), describe="every obstacle layout x every free start/goal x 4/8 directions x every admissible heuristic"))
    big = [(rr, cc) for rr in range(1, 13) for cc in range(1, 13) if 9 < rr * cc <= 12]
    for rr, cc in big:
        js.append(Job(f"grid_{rr}x{cc}_{'all' if tier == 'thorough' else 'auto'}", 2 ** (rr * cc), _grid_chunk, (rr, cc, "all" if tier == "thorough" else "auto"), describe="10-12 cells"))
    for rr, cc in ((4, 6), (6, 4)):
        for diag in (0, 1):
            if tier == "thorough":
                js.append(Job(f"grid_{rr}x{cc}_corner_to_corner_diag{diag}", 2 ** (rr * cc - 2), _corner_chunk, (rr, cc, diag, None, 0), describe="both corners of one diagonal free, every layout of the other cells; queries corner to corner in both orientations, 4 and 8 directions, default heuristic (24 cells: routes that differ by 3*sqrt(2)-4)"))
            elif rr == 4:
                blk = seed % 8
                js.append(Job(f"grid_{rr}x{cc}_corner_to_corner_diag{diag}_block{blk}of8", 2 ** (rr * cc - 5), _corner_chunk, (rr, cc, diag, 8, blk * 2 ** (rr * cc - 5)), describe="both corners of one diagonal free, every layout of the other cells with the last three fixed to the block pattern (VERIF_SEED rotates it); corner-to-corner queries in both orientations, 8 directions, default heuristic"))
    for rr, cc in ((1, 4), (2, 2), (2, 3), (3, 2), (2, 4), (3, 3)):
        js.append(Job(f"terrain_{rr}x{cc}", 3 ** (rr * cc), _terrain_chunk, (rr, cc), describe="cells free(cost 1) / blocked / rough(cost 3)"))
    if tier == "thorough":
        js.append(Job("n3_nonneg_absent0125", 5**9, _n3_chunk, ((None, 0, 1, 2, 5), 16), describe="adds weight 5"))
        js.append(Job("n4_nonneg_5arcs", comb(12, 5) * 3**5, _n4_chunk, (5, (0, 1, 2), False), describe="4 nodes, 5 arcs"))
        js.append(Job("n4_negative_5arcs", comb(12, 5) * 3**5, _n4_chunk, (5, (-1, 0, 1), True), describe="4 nodes, 5 arcs"))
    return js


def replay(v):
    w = v["witness"]
    r = new_result()
    if w.get("large"):
        base = w["large"].split("/")[0]
        names = [g[0] for g in large_graphs()]
        i = names.index(base) * 2 + (1 if "/reversed_list" in w["large"] else 0)
        r = _large_chunk(None, i, i + 1)
    elif v["function"] == "astar_grid":
        g = w["grid"]
        cells = [x for row in g for x in row]
        costs = {int(k): val for k, val in w.get("costs", {}).items()} or None
        run_grid(r, len(g), len(g[0]), cells, "all", costs)
    elif v["kind"] == "nontermination":
        arcs = [tuple(a) for a in w["arcs"]]
        run_nonneg(r, w["n"], arcs, True)
        run_negative(r, w["n"], arcs)
    else:
        arcs = [tuple(a) for a in w["arcs"]]
        if any(a[2] < 0 for a in arcs):
            run_negative(r, w["n"], arcs)
        else:
            run_nonneg(r, w["n"], arcs, full=True)
            run_negative(r, w["n"], arcs)
    for x in r["violations"]:
        if x["function"] == v["function"] and x["kind"] == v["kind"]:
            return x
    return r["violations"][0] if r["violations"] else None
