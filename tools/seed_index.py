#!/venv/bin/python
"""Regenerates seeded/INDEX.md from seeded/*/meta.json. Per (check, tier) the latest run decides; an earlier miss of
the same check is kept as 'first missed, caught after strengthening'."""
import glob, json, os

V = os.path.dirname(os.path.dirname(os.path.abspath(__file__)))
rows = []
tally = {"caught_quick": 0, "caught_thorough_only": 0, "caught_by_other_property_only": 0, "missed": 0}
for f in sorted(glob.glob(os.path.join(V, "seeded", "*", "meta.json"))):
    m = json.load(open(f))
    latest, first = {}, {}
    for c in m.get("checks", []):
        key = (c["check"], c["tier"].split()[0])
        first.setdefault(key, c["exit"])
        latest[key] = c["exit"]
    parts = []
    for (chk, tier), ex in latest.items():
        word = "CAUGHT" if ex == 1 else "missed" if ex == 0 else "error"
        if ex == 1 and first[(chk, tier)] == 0:
            word += " (missed at first, caught after strengthening)"
        if ex == 1 and first[(chk, tier)] == 2:
            word += " (harness error at first, see DESIGN.md)"
        parts.append(f"{chk}({tier}): {word}")
    own = m["breaks_property"]
    if latest.get((own, "quick")) == 1:
        tally["caught_quick"] += 1
    elif latest.get((own, "thorough")) == 1:
        tally["caught_thorough_only"] += 1
    elif any(ex == 1 for ex in latest.values()):
        tally["caught_by_other_property_only"] += 1
    else:
        tally["missed"] += 1
    rows.append((m["id"], own, "yes" if m.get("confirmed") else "NO", "; ".join(parts), m["needs_to_manifest"]))
with open(os.path.join(V, "seeded", "INDEX.md"), "w") as out:
    out.write("# Seeded changes (each breaks one property; the repository's suite still passes)\n\n")
    out.write(f"{len(rows)} changes: {tally['caught_quick']} caught by the quick tier of the property's own check, {tally['caught_thorough_only']} by its thorough tier only, "
              f"{tally['caught_by_other_property_only']} only by the check of another property, {tally['missed']} by none.\n\n")
    out.write("| id | property | independently confirmed | checks (latest run per check and tier) | needs to manifest |\n|---|---|---|---|---|\n")
    for r in rows:
        out.write("| " + " | ".join(x.replace("|", "/") for x in r) + " |\n")
print(len(rows), "seeds", tally)
