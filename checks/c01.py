"""C01 - every assignment solve_sat returns is a model (engine E1 + analyze tap; harness in satlib)."""

from checks import satlib

LEVEL = "exploration"
RULE = (
    "E1: every CNF of each declared space (all clause-sets up to a size over the complete clause universe on 3-4 "
    "variables, ordered literal sequences with duplicates/tautologies, renumbered variables, structured families) is "
    "crossed with every configuration of the declared menu (assumptions, solution_limit, luby_factor, max_restarts, "
    "max_conflicts) and solved by the real solve_sat; each returned assignment is evaluated against every clause and "
    "assumption. Cases are distinct by construction (injective index decode); a case is non-trivial when the run "
    "analysed a conflict and learned a clause, ended INFEASIBLE/MAX_ITER, or returned more than one model."
)
ASSUMPTIONS = [
    "bounds: <=3 variables x <=4 clauses fully crossed with 224 configurations (quick), 5-6 clauses and 4 variables in "
    "thorough; larger formulas only through the structured families (pigeonhole, parity, 11-12 variable enumerations)",
    "oracle: direct clause evaluation of the returned dicts",
]


def jobs(tier, seed):
    return satlib.make_jobs("C01", tier, seed)


def replay(v):
    return satlib.replay("C01", v)
