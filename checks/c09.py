"""C09 - min-cost flow solvers return feasible flows of minimum cost and agree (engine E1 + fuel)."""

from __future__ import annotations

import itertools
from math import comb

from types import SimpleNamespace

from vf.combi import NODE_LABELS, combinations_range, digits, fresh, unlabel
from vf.core import Job, new_result, viol
from vf.guard import guarded

LEVEL = "exploration"
RULE = (
    "E1: every network of each declared space (ordered arc lists on 3 nodes with parallel and anti-parallel arcs, "
    "capacities {0,1,2}, costs {-1,0,1,2}; arc sets on 4 nodes) without a negative cycle of positive capacity, crossed "
    "with every (source, sink, demand in 0..3) for min_cost_flow and every balanced supply vector over {-2..2} (plus an "
    "unbalanced family) for network_simplex; every r x c matrix (r,c<=3) over {-1,0,1,2} for solve_assignment. Oracle: "
    "enumeration of all integral arc flows (feasible set, exact minimum cost); permutations for assignments. "
    "Non-trivial = at least two feasible flows of different cost exist, or no feasible flow exists although the source "
    "has outgoing capacity."
)
ASSUMPTIONS = [
    "<= 4 nodes, <= 4 arcs, capacities <= 2, integer costs in {-1..2}; integrality of optimal flows (data is integral)",
    "returned flow dictionaries pool parallel arcs (u,v); a pooled flow is credited with its cheapest split over the parallel arcs",
    "termination: SIGALRM then JUMP-event fuel",
]

INF = float("inf")


def has_negative_cycle(n, arcs):
    dist = [0] * n
    for _ in range(n):
        changed = False
        for u, v, cap, c in arcs:
            if cap > 0 and dist[u] + c < dist[v]:
                dist[v] = dist[u] + c
                changed = True
        if not changed:
            return False
    return True


def all_flows(arcs):
    return itertools.product(*[range(cap + 1) for (_, _, cap, _) in arcs])


def oracle_table(n, arcs):
    """{net-outflow vector (tuple of length n): min cost} over all integral flows"""
    table = {}
    for f in all_flows(arcs):
        net = [0] * n
        cost = 0
        for x, (u, v, cap, c) in zip(f, arcs):
            if x:
                net[u] += x
                net[v] -= x
                cost += x * c
        k = tuple(net)
        if k not in table or cost < table[k][0]:
            table[k] = (cost, table.get(k, (None, 0))[1] + 1)
        else:
            table[k] = (table[k][0], table[k][1] + 1)
    return table


def differs(a, b):
    """exact comparison of two costs (ints or floats): the float nearest to a large integer cost is a different number"""
    from fractions import Fraction

    try:
        return abs(Fraction(a) - Fraction(b)) > Fraction(1, 10**9)
    except (TypeError, ValueError, OverflowError):
        return True


def check_flow(n, arcs, supplies, flows, objective):
    """flows: {(u,v): f}. returns error or None"""
    capsum = {}
    costs = {}
    for u, v, cap, c in arcs:
        capsum[(u, v)] = capsum.get((u, v), 0) + cap
        costs.setdefault((u, v), []).append((c, cap))
    net = [0] * n
    total = 0
    for key, f in flows.items():
        if key not in capsum:
            return ("flow_on_non_arc", f"flow {f} on {key}, which is not an arc")
        if f != int(f) or f < 0:
            return ("bad_flow_value", f"flow {f} on {key}")
        if f > capsum[key]:
            return ("capacity", f"flow {f} on {key} exceeds pooled capacity {capsum[key]}")
        net[key[0]] += f
        net[key[1]] -= f
        rest = f
        for c, cap in sorted(costs[key]):
            take = min(rest, cap)
            total += take * c
            rest -= take
    if net != list(supplies):
        return ("conservation", f"net outflow {net}, required {list(supplies)}")
    if differs(total, objective):
        return ("objective_not_cost", f"objective {objective}, cheapest cost of the returned flow {total}")
    return None


def judge_result(fname, res, verdict, n, arcs, supplies, table, limited=False):
    from solvor.types import Status

    if verdict == "nontermination":
        return [("nontermination", f"{fname} did not return within the fuel budget")], "hang"
    if verdict:
        return [("raised", verdict)], "raised"
    want = table.get(tuple(supplies))
    if res.status == Status.INFEASIBLE:
        if want is not None:
            return [("wrong_infeasible", f"INFEASIBLE but a feasible flow of cost {want[0]} exists")], "INFEASIBLE"
        return [], "INFEASIBLE"
    if limited and res.status == Status.MAX_ITER:
        return [], "MAX_ITER"  # a declared iteration limit was hit and nothing is claimed
    if limited and res.status == Status.FEASIBLE:
        if want is None:
            return [("flow_for_infeasible", f"status FEASIBLE with flow {res.solution} but no feasible flow exists")], "FEASIBLE"
        e = check_flow(n, arcs, supplies, res.solution, res.objective)
        return ([e] if e else []), "FEASIBLE"
    if res.status != Status.OPTIMAL:
        return [("status", f"status {res.status.name}")], res.status.name
    if want is None:
        return [("flow_for_infeasible", f"status OPTIMAL with flow {res.solution} but no feasible flow exists")], "OPTIMAL"
    e = check_flow(n, arcs, supplies, res.solution, res.objective)
    if e:
        return [e], "OPTIMAL"
    if differs(res.objective, want[0]):
        return [("not_minimum", f"cost {res.objective}, minimum over all feasible flows is {want[0]}")], "OPTIMAL"
    return [], "OPTIMAL"


def run_graph(r, n, arcs, do_mcf=True, do_ns=True, labelled=False):
    from solvor.flow import min_cost_flow
    from solvor.network_simplex import network_simplex

    if has_negative_cycle(n, arcs):
        r["counters"]["filtered_negative_cycle"] += 1
        return
    table = oracle_table(n, arcs)
    wit = {"n": n, "arcs": [list(a) for a in arcs]}
    graph = {}
    for u, v, cap, c in arcs:
        graph.setdefault(u, []).append((v, cap, c))
    costs_seen = {}
    if do_mcf:
        for s in range(n):
            for t in range(n):
                if s == t:
                    continue
                for demand in (0, 1, 2, 3):
                    sup = [0] * n
                    sup[s] += demand
                    sup[t] -= demand

                    def call():
                        try:
                            if labelled:
                                # assorted hashable labels, a fresh equal-but-not-identical object at every use
                                lab = lambda x: fresh(NODE_LABELS[x])  # noqa: E731
                                g = {lab(k): [(lab(v), cap, c) for v, cap, c in vs] for k, vs in graph.items()}
                                res = min_cost_flow(g, lab(s), lab(t), demand)
                                inv = {NODE_LABELS[x]: x for x in range(n)}
                                return SimpleNamespace(status=res.status, objective=res.objective, ok=res.ok, solution=unlabel(res.solution, inv)), None
                            return min_cost_flow({k: list(v) for k, v in graph.items()}, s, t, demand), None
                        except Exception as ex:  # noqa: BLE001
                            return None, f"{type(ex).__name__}: {ex}"

                    v, verdict = guarded(call, 2.0, 5_000_000)
                    res, err = (None, None) if verdict else v
                    errs, label = judge_result("min_cost_flow", res, verdict or err, n, arcs, sup, table)
                    _rec(r, "min_cost_flow", errs, label, table, sup, dict(wit, source=s, sink=t, demand=demand, labelled=labelled), f"min_cost_flow({graph}, {s}, {t}, {demand}{', assorted labels' if labelled else ''})")
                    if not errs and res is not None and res.ok:
                        costs_seen[tuple(sup)] = res.objective
    if do_ns:
        rng = (-2, -1, 0, 1, 2)
        for sup in itertools.product(rng, repeat=n):
            if sum(sup) != 0:
                continue

            def call():
                try:
                    return network_simplex(n, [tuple(a) for a in arcs], list(sup)), None
                except Exception as ex:  # noqa: BLE001
                    return None, f"{type(ex).__name__}: {ex}"

            v, verdict = guarded(call, 2.0, 5_000_000)
            res, err = (None, None) if verdict else v
            errs, label = judge_result("network_simplex", res, verdict or err, n, arcs, list(sup), table)
            _rec(r, "network_simplex", errs, label, table, list(sup), dict(wit, supplies=list(sup)), f"network_simplex({n}, {arcs}, {list(sup)})")
            if not errs and res is not None and res.ok and tuple(sup) in costs_seen and differs(costs_seen[tuple(sup)], res.objective):
                r["violations"].append(viol("network_simplex", "solvers_disagree", dict(wit, supplies=list(sup)), f"min_cost_flow cost {costs_seen[tuple(sup)]} vs network_simplex cost {res.objective} on {arcs} supplies {sup}"))
            # the same instance under an iteration limit: MAX_ITER / FEASIBLE claim nothing about optimality, every
            # other answer is judged exactly as before
            for mi in (1, 2, 3):

                def call_limited():
                    try:
                        return network_simplex(n, [tuple(a) for a in arcs], list(sup), max_iter=mi), None
                    except Exception as ex:  # noqa: BLE001
                        return None, f"{type(ex).__name__}: {ex}"

                v, verdict = guarded(call_limited, 2.0, 5_000_000)
                res, err = (None, None) if verdict else v
                errs, label = judge_result("network_simplex", res, verdict or err, n, arcs, list(sup), table, limited=True)
                _rec(r, "network_simplex", errs, f"max_iter:{label}", table, list(sup), dict(wit, supplies=list(sup), max_iter=mi), f"network_simplex({n}, {arcs}, {list(sup)}, max_iter={mi})")
        # unbalanced supplies are infeasible by definition
        sup = [1] + [0] * (n - 1)
        try:
            res, verdict = guarded(lambda: network_simplex(n, [tuple(a) for a in arcs], sup), 2.0, 5_000_000)
            if verdict:
                raise RuntimeError(verdict)
            if res.status.name != "INFEASIBLE":
                r["violations"].append(viol("network_simplex", "unbalanced_accepted", dict(wit, supplies=sup), f"unbalanced supplies {sup} answered {res.status.name}"))
        except Exception as ex:  # noqa: BLE001
            r["violations"].append(viol("network_simplex", "raised", dict(wit, supplies=sup), f"{type(ex).__name__}: {ex}"))
    if not r["samples"]:
        r["samples"].append(wit)


def _rec(r, fname, errs, label, table, sup, wit, call):
    r["n"] += 1
    r["outcomes"][f"{fname}:{label}"] += 1
    if label == "hang":
        r["counters"]["hangs"] += 1
    want = table.get(tuple(sup))
    if (want is not None and want[1] > 1) or (want is None and any(sup)):
        r["nontrivial"] += 1
    for kind, detail in errs:
        r["violations"].append(viol(fname, kind, wit, f"{call}: {detail}"))


PAIRS3 = [(u, v) for u in range(3) for v in range(3) if u != v]
PAIRS4 = [(u, v) for u in range(4) for v in range(4) if u != v]


def _n3_chunk(params, lo, hi):
    """ordered arc lists of exactly L arcs on 3 nodes; option = (pair, cap, cost)"""
    L, caps, costs = params
    opts = [(u, v, cap, c) for (u, v) in PAIRS3 for cap in caps for c in costs]
    r = new_result()
    for idx in range(lo, hi):
        arcs = [opts[d] for d in digits(idx, len(opts), L)]
        run_graph(r, 3, arcs)
        if idx % 4 == 1:
            run_graph(r, 3, arcs, do_ns=False, labelled=True)
        if len(r["violations"]) >= 40 or r["counters"]["hangs"] >= 2:
            r["capped"] = True
            break
    return r


def _n4_chunk(params, lo, hi):
    """k distinct ordered pairs on 4 nodes x (cap,cost) options per arc: index = comb*|opt|^k + code"""
    k, caps, costs = params
    opt = [(cap, c) for cap in caps for c in costs]
    per = len(opt) ** k
    r = new_result()
    c_lo, c_hi = lo // per, (hi - 1) // per + 1
    for ci, cset in enumerate(combinations_range(12, k, c_lo, c_hi), start=c_lo):
        for code in range(per):
            idx = ci * per + code
            if idx < lo or idx >= hi:
                continue
            ds = digits(code, len(opt), k)
            arcs = [(PAIRS4[cset[i]][0], PAIRS4[cset[i]][1], opt[ds[i]][0], opt[ds[i]][1]) for i in range(k)]
            if idx % 2:
                arcs.reverse()
            run_graph(r, 4, arcs)
            if idx % 8 == 3:
                run_graph(r, 4, arcs, do_ns=False, labelled=True)
            if r["counters"]["hangs"] >= 2:
                break
        if len(r["violations"]) >= 40 or r["counters"]["hangs"] >= 2:
            r["capped"] = True
            break
    return r


L5_PAIRS = sorted([(0, x) for x in (1, 2, 3, 4)] + [(x, 4) for x in (1, 2, 3)] + [(u, v) for u in (1, 2, 3) for v in (1, 2, 3) if u != v])


def _layered5_chunk(params, lo, hi):
    """5 nodes, source 0 with out-arcs only, sink 4 with in-arcs only, k of the 13 possible arcs with unit capacity and
    costs in {0,1,2}; min_cost_flow from 0 to 4 with demand 1 and 2, graph dict built in arc order and in reverse arc
    order (the order in which Bellman-Ford meets the arcs decides how many sweeps it needs).
    index = comb_index * 3^k + cost_code"""
    from solvor.flow import min_cost_flow

    k = params
    per = 3**k
    r = new_result()
    c_lo, c_hi = lo // per, (hi - 1) // per + 1
    for ci, cset in enumerate(combinations_range(len(L5_PAIRS), k, c_lo, c_hi), start=c_lo):
        for code in range(per):
            idx = ci * per + code
            if idx < lo or idx >= hi:
                continue
            cs = digits(code, 3, k)
            arcs = [(L5_PAIRS[cset[i]][0], L5_PAIRS[cset[i]][1], 1, cs[i]) for i in range(k)]
            table = oracle_table(5, arcs)
            for order in (0, 1):
                graph = {}
                for u, v, cap, c in arcs if order == 0 else reversed(arcs):
                    graph.setdefault(u, []).append((v, cap, c))
                for demand in (1, 2):
                    sup = [demand, 0, 0, 0, -demand]

                    def call():
                        try:
                            return min_cost_flow({a: list(b) for a, b in graph.items()}, 0, 4, demand), None
                        except Exception as ex:  # noqa: BLE001
                            return None, f"{type(ex).__name__}: {ex}"

                    v, verdict = guarded(call, 2.0, 5_000_000)
                    res, err = (None, None) if verdict else v
                    errs, label = judge_result("min_cost_flow", res, verdict or err, 5, arcs, sup, table)
                    wit = {"n": 5, "arcs": [list(a) for a in arcs], "source": 0, "sink": 4, "demand": demand, "dict_order": order, "layered5": True}
                    _rec(r, "min_cost_flow", errs, label, table, sup, wit, f"min_cost_flow({graph}, 0, 4, {demand})")
            if len(r["violations"]) >= 40 or r["counters"]["hangs"] >= 2:
                r["capped"] = True  # checked per case: a tree on which every call hangs must not cost 729 x 4 timeouts
                break
        if r["capped"]:
            break
    if not r["samples"] and hi > lo:
        r["samples"].append({"family": "layered5", "k": k})
    return r


def _assign_chunk(params, lo, hi):
    from solvor.flow import solve_assignment

    rows, cols = params
    alpha = (-1, 0, 1, 2)
    r = new_result()
    for idx in range(lo, hi):
        ent = [alpha[d] for d in digits(idx, 4, rows * cols)]
        m = [ent[i * cols : (i + 1) * cols] for i in range(rows)]
        r["n"] += 1
        wit = {"cost_matrix": m}
        def call():
            try:
                return solve_assignment([list(x) for x in m]), None
            except Exception as ex:  # noqa: BLE001
                return None, f"{type(ex).__name__}: {ex}"

        got, verdict = guarded(call, 2.0, 5_000_000)
        if verdict == "nontermination":
            r["counters"]["hangs"] += 1
            r["outcomes"]["solve_assignment:hang"] += 1
            r["violations"].append(viol("solve_assignment", "nontermination", wit, f"solve_assignment({m}) did not return within the fuel budget"))
            if r["counters"]["hangs"] >= 2:
                r["capped"] = True
                break
            continue
        res, err = got
        if err:
            r["violations"].append(viol("solve_assignment", "raised", wit, f"solve_assignment({m}): {err}"))
            continue
        vals = []
        if rows <= cols:
            for cs in itertools.permutations(range(cols), rows):
                vals.append(sum(m[i][cs[i]] for i in range(rows)))
        else:
            for rs in itertools.permutations(range(rows), cols):
                vals.append(sum(m[rs[j]][j] for j in range(cols)))
        best = min(vals)
        if len(set(vals)) > 1:
            r["nontrivial"] += 1
        a = res.solution
        r["outcomes"]["solve_assignment:" + res.status.name] += 1
        err = None
        used = [x for x in a if x != -1] if isinstance(a, list) else None
        if used is None or len(a) != rows or any((not isinstance(x, int)) or x < -1 or x >= cols for x in a):
            err = ("shape", f"assignment {a!r}")
        elif len(set(used)) != len(used) or len(used) != min(rows, cols):
            err = ("not_a_matching", f"assignment {a} is not a matching of size {min(rows, cols)}")
        else:
            tot = sum(m[i][a[i]] for i in range(rows) if a[i] != -1)
            if abs(tot - res.objective) > 1e-9:
                err = ("objective_not_sum", f"objective {res.objective}, chosen entries sum to {tot}")
            elif tot != best:
                err = ("not_optimal", f"assignment {a} costs {tot}, optimum {best}")
        if err:
            r["violations"].append(viol("solve_assignment", err[0], wit, f"solve_assignment({m}): {err[1]}"))
        if not r["samples"]:
            r["samples"].append(wit)
        if len(r["violations"]) >= 40:
            r["capped"] = True
            break
    return r


def large_assignments():
    """assignment matrices with 11 to 13 rows or columns (two-digit indices) whose optimum is known by construction:
    a zero at one planted position per row (a permutation) and strictly positive entries elsewhere -> optimum 0"""
    out = []
    for n, m in ((1, 11), (11, 1), (11, 11), (12, 13), (13, 12)):
        k = min(n, m)
        for shift in (0, 1, 10):
            mat = [[1 + ((3 * i + 5 * j) % 7) for j in range(m)] for i in range(n)]
            if n <= m:
                plant = {i: (m - 1 - i + shift) % m for i in range(n)}
            else:
                cols = {j: (n - 1 - j + shift) % n for j in range(m)}
                plant = {r: j for j, r in cols.items()}
            for i, j in plant.items():
                mat[i][j] = 0
            out.append((mat, k))
    return out


def path_networks():
    """(name, n, arcs, source, sink, {demand: min cost or None}): k node-disjoint source-sink paths of 2..k+1 arcs, capacities
    1-3 and costs from fixed formulas (one arc of every second path has a negative cost), optionally with useless cross arcs
    of high cost between neighbouring paths; the cheapest flow of d units fills the paths in order of their cost per unit"""
    out = []
    for k, cross in ((4, False), (6, False), (6, True), (9, True)):
        arcs = []
        nxt = 2
        paths = []  # (cost per unit, capacity)
        firsts = []
        for p in range(k):
            hops = 2 + p
            cap = 1 + (p * 2) % 3
            prev = 0
            tot = 0
            inner = []
            for h in range(hops):
                c = 1 + (3 * p + 5 * h) % 7
                if p % 2 == 1 and h == 1:
                    c = -2
                tot += c
                if h == hops - 1:
                    arcs.append((prev, 1, cap + (h % 2), c))
                else:
                    arcs.append((prev, nxt, cap + (h % 2), c))
                    inner.append(nxt)
                    prev = nxt
                    nxt += 1
            paths.append((tot, cap))
            firsts.append(inner)
        if cross:
            for p in range(k - 1):
                arcs.append((firsts[p][0], firsts[p + 1][0], 2, 50))
        n = nxt
        table = {}
        total_cap = sum(c for _, c in paths)
        for d in range(0, total_cap + 2):
            if d > total_cap:
                table[d] = None
                continue
            rest, cost = d, 0
            for unit, cap in sorted(paths):
                take = min(rest, cap)
                cost += take * unit
                rest -= take
            table[d] = cost
        out.append((f"{k}_disjoint_paths{'_with_cross_arcs' if cross else ''}", n, arcs, 0, 1, table))
    # a bare chain 0..n-1 of unit cost (capacity 2) and one direct arc 0 -> n-1 of cost 100: the cheapest path has n-1 arcs
    for n in (8, 9, 12, 16, 33):
        arcs = [(i, i + 1, 2, 1) for i in range(n - 1)] + [(0, n - 1, 2, 100)]
        out.append((f"chain_{n}_with_dear_direct_arc", n, arcs, 0, n - 1, {0: 0, 1: n - 1, 2: 2 * (n - 1), 3: 2 * (n - 1) + 100, 4: 2 * (n - 1) + 200, 5: None}))
    # dense networks on 8-12 nodes: a chain 0..n-1 of unit cost and capacity 3, every shortcut (i, j>i+1) at cost 9 per hop
    # skipped (never worth taking), some of them twice, and - listed last - a direct arc 0 -> n-1 of cost 1 and capacity 1
    for n, extra in ((8, 4), (8, 5), (8, 12), (10, 3), (12, 0)):
        arcs = [(i, i + 1, 3, 1) for i in range(n - 1)]
        short = [(i, j, 3, 9 * (j - i)) for i in range(n) for j in range(i + 2, n) if (i, j) != (0, n - 1)]
        arcs += short + [(u, v, 2, c + (v - u)) for u, v, _, c in short[:extra]]
        arcs.append((0, n - 1, 1, 1))
        table = {0: 0}
        for d in range(1, 6):
            table[d] = 1 + (n - 1) * (d - 1) if d <= 4 else 1 + 3 * (n - 1) + min(c for u, v, _, c in [(0, n - 1, 0, 9 * (n - 1))] + [(0, 0, 0, 10**9)])
        # the fifth unit has to use shortcuts: cheapest is any monotone combination, 9 per hop skipped plus chain parts are
        # full, so the closed form stops at 4 units
        del table[5]
        out.append((f"dense_{n}_nodes_{len(arcs)}_arcs_direct_arc_last", n, arcs, 0, n - 1, table))
    return out


def _paths_chunk(params, lo, hi):
    from solvor.flow import min_cost_flow
    from solvor.network_simplex import network_simplex
    from solvor.types import Status

    nets = path_networks()
    r = new_result()
    for idx in range(lo, hi):
        name, n, arcs, s, t, table = nets[idx // 3]
        order = idx % 3
        # 0: as built, 1: reversed, 2: zig-zag (arcs grouped by tail node in the order 1, 0, 3, 2, 5, 4, ...)
        alist = list(arcs) if order == 0 else (list(reversed(arcs)) if order == 1 else sorted(arcs, key=lambda a: (a[0] ^ 1, a[1] ^ 1)))
        graph = {}
        for u, v, cap, c in alist:
            graph.setdefault(u, []).append((v, cap, c))
        for d, want in table.items():
            sup = [0] * n
            sup[s] += d
            sup[t] -= d
            for fname, fn in (("min_cost_flow", lambda: min_cost_flow({k_: list(v_) for k_, v_ in graph.items()}, s, t, d)), ("network_simplex", lambda: network_simplex(n, [tuple(a) for a in alist], list(sup)))):
                wit = {"paths": name, "order": order, "demand": d, "function": fname}
                r["n"] += 1
                r["nontrivial"] += 1

                def call():
                    try:
                        return fn(), None
                    except Exception as ex:  # noqa: BLE001
                        return None, f"{type(ex).__name__}: {ex}"

                v, verdict = guarded(call, 30.0, 300_000_000)
                res, err = (None, None) if verdict else v
                how = f"{fname} on {name} ({n} nodes, arc list {('as built', 'reversed', 'zig-zag by tail node')[order]}), demand {d}"
                if verdict or err:
                    r["outcomes"][f"paths:{fname}:{'hang' if verdict else 'raised'}"] += 1
                    r["violations"].append(viol(fname, "nontermination" if verdict else "raised", wit, f"{how}: {verdict or err}"))
                    continue
                r["outcomes"][f"paths:{fname}:{res.status.name}"] += 1
                if want is None:
                    if res.status != Status.INFEASIBLE:
                        r["violations"].append(viol(fname, "flow_for_infeasible", wit, f"{how}: status {res.status.name} although the paths carry less than {d} units"))
                    continue
                if res.status != Status.OPTIMAL:
                    r["violations"].append(viol(fname, "wrong_infeasible" if res.status == Status.INFEASIBLE else "status", wit, f"{how}: status {res.status.name}, a flow of cost {want} exists"))
                    continue
                e = check_flow(n, alist, sup, res.solution, res.objective)
                if e:
                    r["violations"].append(viol(fname, e[0], wit, f"{how}: {e[1]}"))
                elif differs(res.objective, want):
                    r["violations"].append(viol(fname, "not_minimum", wit, f"{how}: cost {res.objective}, the minimum in closed form is {want}"))
        if not r["samples"]:
            r["samples"].append({"paths": name})
    return r


def _large_assign_chunk(params, lo, hi):
    from solvor.flow import solve_assignment

    cases = large_assignments()
    r = new_result()
    for idx in range(lo, hi):
        mat, k = cases[idx]
        wit = {"cost_matrix": mat, "large": True}
        r["n"] += 1
        r["nontrivial"] += 1

        def call():
            try:
                return solve_assignment([list(x) for x in mat]), None
            except Exception as ex:  # noqa: BLE001
                return None, f"{type(ex).__name__}: {ex}"

        got, verdict = guarded(call, 10.0, 50_000_000)
        if verdict:
            r["violations"].append(viol("solve_assignment", "nontermination", wit, f"solve_assignment({len(mat)}x{len(mat[0])} planted matrix) did not return"))
            continue
        res, err = got
        if err:
            r["violations"].append(viol("solve_assignment", "raised", wit, f"solve_assignment({len(mat)}x{len(mat[0])} planted matrix): {err}"))
            continue
        a = res.solution
        used = [x for x in a if x != -1] if isinstance(a, list) else None
        r["outcomes"]["solve_assignment_large:" + res.status.name] += 1
        if used is None or len(a) != len(mat) or len(set(used)) != len(used) or len(used) != k or any(x < -1 or x >= len(mat[0]) for x in a):
            r["violations"].append(viol("solve_assignment", "not_a_matching", wit, f"solve_assignment on {mat}: assignment {a} is not a matching of size {k}"))
            continue
        tot = sum(mat[i][a[i]] for i in range(len(mat)) if a[i] != -1)
        if tot != 0 or abs(res.objective) > 1e-9:
            r["violations"].append(viol("solve_assignment", "not_optimal", wit, f"solve_assignment on {mat}: assignment {a} costs {tot} (objective {res.objective}), the planted matching costs 0"))
        if not r["samples"]:
            r["samples"].append({"rows": len(mat), "cols": len(mat[0])})
    return r


def jobs(tier, seed):
    js = []
    full = ((0, 1, 2), (-1, 0, 1, 2))
    for L in (0, 1, 2):
        js.append(Job(f"n3_arclists_len{L}_full", 72**L, _n3_chunk, (L,) + full, describe="ordered arc lists (parallel/anti-parallel) on 3 nodes, caps {0,1,2}, costs {-1,0,1,2}; every (s,t,demand) and every balanced supply vector"))
    js.append(Job("n3_arclists_len3_huge_costs", 18**3, _n3_chunk, (3, (3,), (-2, 5, 10**10)), describe="3 arcs on 3 nodes, capacity 3, costs {-2, 5, 10^10}: one arc priced ten orders of magnitude above the others (penalty arcs; tolerances scaled by the cost sum)"))
    for L in (1, 2, 3):
        js.append(Job(f"n3_arclists_len{L}_cost_beyond_2^53", 24**L, _n3_chunk, (L, (1, 3), (-2, 2**53 + 1)), describe="arcs with cost 2^53+1 (not a double) next to cost -2, capacities {1,3}: total costs are integers that only exact arithmetic reports faithfully"))
    js.append(Job("n3_arclists_len3", 36**3, _n3_chunk, (3, (1, 2), (-1, 0, 2)), describe="3 arcs, caps {1,2}, costs {-1,0,2}"))
    for k in (1, 2, 3):
        cs = (-1, 0, 1, 2) if (k < 3 or tier == "thorough") else (-1, 1)
        js.append(Job(f"n4_arcsets_{k}", comb(12, k) * (2 * len(cs)) ** k, _n4_chunk, (k, (1, 2), cs), describe=f"k distinct ordered pairs on 4 nodes, caps {{1,2}}, costs {cs}; both list orders"))
    for k in (4, 5, 6):
        js.append(Job(f"n5_layered_{k}arcs_unit_costs012", comb(len(L5_PAIRS), k) * 3**k, _layered5_chunk, k, describe="5 nodes, source out-arcs only, sink in-arcs only, k unit-capacity arcs with costs {0,1,2}, demand 1 and 2, two dict orders: the smallest networks on which Bellman-Ford needs a sweep that only lowers labels"))
    js.append(Job("disjoint_path_networks", len(path_networks()) * 3, _paths_chunk, None, chunk=1, describe="dense 8-12 node networks with 33-66 arcs whose only cheap shortcut is listed last; 4-9 node-disjoint source-sink paths of 2-10 arcs (15-60 nodes), capacities 1-4, one negative arc on every second path, optional useless cross arcs; every demand from 0 to one more than the total capacity; min_cost_flow and network_simplex against the closed form (fill the paths in order of unit cost); three arc-list orders (as built, reversed, zig-zag by tail node)"))
    js.append(Job("assignment_large_planted", len(large_assignments()), _large_assign_chunk, None, chunk=1, describe="1x11, 11x1, 11x11, 12x13, 13x12 matrices with a planted zero-cost matching (two-digit row/column indices)"))
    for rows in (1, 2, 3):
        for cols in (1, 2, 3):
            js.append(Job(f"assignment_{rows}x{cols}", 4 ** (rows * cols), _assign_chunk, (rows, cols), describe="solve_assignment on all matrices over {-1,0,1,2}"))
    if tier == "thorough":
        js.append(Job("n3_arclists_len4_huge_costs", 18**4, _n3_chunk, (4, (3,), (-2, 5, 10**10)), describe="4 arcs on 3 nodes, capacity 3, costs {-2, 5, 10^10}"))
        js.append(Job("n3_arclists_len3_full", 72**3, _n3_chunk, (3,) + full, describe="3 arcs, full alphabets"))
        js.append(Job("n4_arcsets_4", comb(12, 4) * 4**4, _n4_chunk, (4, (1, 2), (-1, 1)), describe="4 arcs on 4 nodes, caps {1,2}, costs {-1,1}"))
        js.append(Job("n3_arclists_len4", 24**4, _n3_chunk, (4, (1, 2), (-1, 1)), describe="4 arcs on 3 nodes, caps {1,2}, costs {-1,1}"))
    else:
        total = comb(12, 4) * 4**4
        b = seed % 8
        lo, hi = total * b // 8, total * (b + 1) // 8
        js.append(Job(f"n4_arcsets_4_block{b}of8", hi - lo, _n4_block, lo, describe="rotating 1/8 block of the 4-arc networks on 4 nodes"))
    return js


def _n4_block(params, lo, hi):
    return _n4_chunk((4, (1, 2), (-1, 1)), params + lo, params + hi)


def replay(v):
    w = v["witness"]
    r = new_result()
    if w.get("paths"):
        i = [nw[0] for nw in path_networks()].index(w["paths"]) * 3 + w.get("order", 0)
        rr = _paths_chunk(None, i, i + 1)
        for x in rr["violations"]:
            if x["function"] == v["function"] and x["witness"].get("demand") == w.get("demand"):
                return x
        return rr["violations"][0] if rr["violations"] else None
    if w.get("layered5"):
        from solvor.flow import min_cost_flow

        arcs = [tuple(a) for a in w["arcs"]]
        graph = {}
        for u, x, cap, c in arcs if w["dict_order"] == 0 else reversed(arcs):
            graph.setdefault(u, []).append((x, cap, c))
        sup = [w["demand"], 0, 0, 0, -w["demand"]]
        try:
            res, err = min_cost_flow(graph, 0, 4, w["demand"]), None
        except Exception as ex:  # noqa: BLE001
            res, err = None, f"{type(ex).__name__}: {ex}"
        errs, _ = judge_result("min_cost_flow", res, err, 5, arcs, sup, oracle_table(5, arcs))
        return {"function": "min_cost_flow", "kind": errs[0][0], "detail": errs[0][1]} if errs else None
    if v["function"] == "solve_assignment" and w.get("large"):
        cases = large_assignments()
        for i, (mat, _) in enumerate(cases):
            if mat == w["cost_matrix"]:
                rr = _large_assign_chunk(None, i, i + 1)
                return rr["violations"][0] if rr["violations"] else None
        return None
    if v["function"] == "solve_assignment":
        m = w["cost_matrix"]
        rows, cols = len(m), len(m[0])
        idx = 0
        alpha = (-1, 0, 1, 2)
        for k, x in enumerate([x for row in m for x in row]):
            idx += alpha.index(x) * 4**k
        rr = _assign_chunk((rows, cols), idx, idx + 1)
        return rr["violations"][0] if rr["violations"] else None
    run_graph(r, w["n"], [tuple(a) for a in w["arcs"]], do_ns=not w.get("labelled"), labelled=bool(w.get("labelled")))
    for x in r["violations"]:
        if x["function"] == v["function"] and all(x["witness"].get(k) == w.get(k) for k in ("source", "sink", "demand", "supplies", "max_iter", "labelled")):
            return x
    return None
