"""C10 - solve_hungarian returns a matching of optimal total cost (engine E1)."""

from __future__ import annotations

import itertools
from fractions import Fraction

from vf.guard import call as gcall, too_many_hangs
from vf.core import Job, indexed_chunk, new_result, viol

LEVEL = "exploration"
RULE = (
    "E1: every r x c matrix over the declared entry alphabet (index = mixed-radix code of the entries, injective) x "
    "{minimize, maximize} is solved by the real solve_hungarian; oracle = enumeration of all injective assignments of "
    "the shorter side. A case is non-trivial when the optimal matchings are not all matchings (some matching is "
    "strictly worse than the optimum), i.e. the solver had something to decide."
)
ASSUMPTIONS = [
    "entries are small integers or dyadic rationals, so float arithmetic in solver and oracle is exact (tolerance 1e-9)",
    "sizes up to 4x4 (permutation oracle); larger matrices are outside the bound",
]

A4 = (-1, 0, 1, 2)
A6 = (-2, -1, 0, 0.5, 1, 2)
A3 = (-1, 0, 2)
A2 = (0, 1)
TINY = (0, 2.0**-40, 1)  # a dyadic entry far below any sensible tolerance: optimality is exact, not "within 1e-9"


def best(matrix, r, c, minimize):
    matrix = [[Fraction(x) for x in row] for row in matrix]  # entries are integers or dyadic rationals: exact
    vals = []
    if r <= c:
        for cols in itertools.permutations(range(c), r):
            vals.append(sum(matrix[i][cols[i]] for i in range(r)))
    else:
        for rows in itertools.permutations(range(r), c):
            vals.append(sum(matrix[rows[j]][j] for j in range(c)))
    return (min(vals) if minimize else max(vals)), len(set(vals)) > 1


def judge(matrix, minimize):
    from solvor.hungarian import solve_hungarian

    r = len(matrix)
    c = len(matrix[0])
    try:
        res = gcall(lambda: solve_hungarian([list(row) for row in matrix], minimize=minimize))
    except Exception as ex:  # noqa: BLE001
        return [("raised", f"{type(ex).__name__}: {ex}")], "raised", False
    a = res.solution
    errs = []
    opt, nontrivial = best(matrix, r, c, minimize)
    if not isinstance(a, list) or len(a) != r:
        return [("shape", f"assignment {a!r} does not have one entry per row")], "bad", nontrivial
    used = [x for x in a if x != -1]
    if any((not isinstance(x, int)) or x < -1 or x >= c for x in a):
        errs.append(("range", f"assignment {a} has an entry outside -1..{c - 1}"))
    elif len(set(used)) != len(used):
        errs.append(("column_twice", f"assignment {a} uses a column twice"))
    elif len(used) != min(r, c):
        errs.append(("pair_count", f"assignment {a} has {len(used)} pairs, expected {min(r, c)}"))
    else:
        tot = sum(Fraction(matrix[i][a[i]]) for i in range(r) if a[i] != -1)
        if abs(float(tot) - res.objective) > 1e-9:
            errs.append(("objective_not_sum", f"objective {res.objective} but chosen entries sum to {float(tot)} (assignment {a})"))
        if tot != opt:  # exact: the optimum over all matchings, not an approximation of it
            errs.append(("not_optimal", f"assignment {a} costs {float(tot)}, optimum is {float(opt)} ({'min' if minimize else 'max'}; off by {float(abs(tot - opt)):.3g})"))
    if not res.ok:
        errs.append(("status", f"status {res.status.name}"))
    return errs, ("ok:" + ",".join(map(str, a)) if not errs else errs[0][0]), nontrivial


def _case(params, idx, r):
    rows, cols, alpha = params
    minimize = idx % 2 == 0
    k = idx // 2
    ent = []
    for _ in range(rows * cols):
        ent.append(alpha[k % len(alpha)])
        k //= len(alpha)
    matrix = [ent[i * cols : (i + 1) * cols] for i in range(rows)]
    errs, label, nontrivial = judge(matrix, minimize)
    r["n"] += 1
    r["outcomes"][label] += 1
    if nontrivial:
        r["nontrivial"] += 1
    if not r["samples"]:
        r["samples"].append({"cost_matrix": matrix, "minimize": minimize})
    for kind, detail in errs:
        r["violations"].append(
            viol("solve_hungarian", kind, {"cost_matrix": matrix, "minimize": minimize}, f"solve_hungarian({matrix}, minimize={minimize}): {detail}")
        )


def _chunk(params, lo, hi):
    if len(params) == 4:  # block of a bigger space: (rows, cols, alpha, offset)
        off = params[3]
        return indexed_chunk(lambda p, i, r: _case(p[:3], i + off, r), params, lo, hi)
    return indexed_chunk(_case, params, lo, hi)


HIST_FIRST = [[[5, 5], [0, 9]], [[9, 0], [5, 5]], [[-1, 2, 2], [0, 0, 2], [2, -1, -1]], [[1, 1, 1], [1, 1, 1], [1, 1, 1]], [[7, 0, 3], [0, 7, 3], [3, 3, 0]]]


def _history_chunk(params, lo, hi):
    """Statelessness: call A (square), then call B (rectangular with the same max dimension); B is judged on its own.
    index = (first * 2 + minimize_first) * |B space| + b_index ; B ranges over all 1x2, 2x1, 2x3, 3x2 matrices over {0,3,4}"""
    from solvor.hungarian import solve_hungarian

    alpha = (0, 3, 4)
    shapes = [(1, 2), (2, 1), (2, 3), (3, 2), (1, 3), (3, 1)]
    sizes = [len(alpha) ** (a * b) for a, b in shapes]
    tot = sum(sizes)
    r = new_result()
    for idx in range(lo, hi):
        b = idx % (tot * 2)
        fa = idx // (tot * 2)
        first = HIST_FIRST[fa // 2]
        min_first = fa % 2 == 0
        minimize = b % 2 == 0
        b //= 2
        for (rows, cols), sz in zip(shapes, sizes):
            if b < sz:
                break
            b -= sz
        ent = [alpha[d] for d in digits_(b, len(alpha), rows * cols)]
        matrix = [ent[i * cols : (i + 1) * cols] for i in range(rows)]
        try:
            gcall(lambda: solve_hungarian([list(x) for x in first], minimize=min_first))
        except Exception:  # noqa: BLE001 - the first call is judged where it is enumerated on its own
            pass
        errs, label, nontrivial = judge(matrix, minimize)
        r["n"] += 1
        r["outcomes"]["after_history:" + label] += 1
        if nontrivial:
            r["nontrivial"] += 1
        wit = {"history": [{"cost_matrix": first, "minimize": min_first}], "cost_matrix": matrix, "minimize": minimize}
        if not r["samples"]:
            r["samples"].append(wit)
        for kind, detail in errs:
            r["violations"].append(viol("solve_hungarian", kind, wit, f"after solve_hungarian({first}, minimize={min_first}): solve_hungarian({matrix}, minimize={minimize}): {detail}"))
        if len(r["violations"]) >= 40 or too_many_hangs():
            r["capped"] = True
            break
    return r


def digits_(idx, base, n):
    out = []
    for _ in range(n):
        out.append(idx % base)
        idx //= base
    return out


def _job(rows, cols, alpha, name=None):
    size = 2 * len(alpha) ** (rows * cols)
    return Job(name or f"{rows}x{cols}_over_{len(alpha)}", size, _chunk, (rows, cols, alpha), describe=f"all {rows}x{cols} matrices over {alpha} x min/max")


def large_matrices():
    """matrices with 11 to 24 rows/columns whose optimum is known by construction: a planted matching of zero entries in
    an otherwise strictly positive matrix (minimise -> 0), and the negated matrix (maximise -> 0)"""
    out = []
    for n, m in ((1, 11), (11, 1), (11, 11), (12, 13), (13, 12), (24, 24)):
        for shift in (0, 1, 10):
            mat = [[1 + ((3 * i + 5 * j) % 7) for j in range(m)] for i in range(n)]
            if n <= m:
                plant = {i: (m - 1 - i + shift) % m for i in range(n)}
            else:
                cols = {j: (n - 1 - j + shift) % n for j in range(m)}
                plant = {r: j for j, r in cols.items()}
            for i, j in plant.items():
                mat[i][j] = 0
            out.append((mat, True))
            out.append(([[-x for x in row] for row in mat], False))
    # ramps max(0, j - i): the diagonal costs 0, every assignment costs >= 0; inserting row k displaces a chain of k rows, so
    # one augmenting search walks through every column already matched (searches of 17-30 steps)
    for n, m in ((17, 17), (20, 20), (30, 30), (18, 21)):
        ramp = [[max(0, j - i) for j in range(m)] for i in range(n)]
        out.append((ramp, True))
        out.append(([[-x for x in row] for row in ramp], False))
        out.append(([[0.375 * x for x in row] for row in ramp], True))
    return out


def product_matrices():
    """(matrix, minimize, optimum): c[i][j] = (i+1)(j+1) with more columns than rows - all rows agree on which columns are
    good; by the rearrangement inequality the minimum pairs the largest row factors with the smallest column factors
    (columns 1..rows), the maximum pairs them with the largest columns in the same order"""
    out = []
    for n, m in ((9, 10), (9, 12), (9, 15), (11, 16), (12, 31), (20, 40)):
        mat = [[(i + 1) * (j + 1) for j in range(m)] for i in range(n)]
        lo = sum((i + 1) * (n - i) for i in range(n))
        hi = sum((i + 1) * (m - n + i + 1) for i in range(n))
        out.append((mat, True, lo))
        out.append((mat, False, hi))
    return out


def _large_chunk(params, lo, hi):
    from solvor.hungarian import solve_hungarian

    cases = [c + (0,) for c in large_matrices()] + product_matrices()
    r = new_result()
    for idx in range(lo, hi):
        mat, minimize, want = cases[idx]
        rows, cols = len(mat), len(mat[0])
        wit = {"cost_matrix": mat, "minimize": minimize, "large": True}
        r["n"] += 1
        r["nontrivial"] += 1
        try:
            res = gcall(lambda: solve_hungarian([list(x) for x in mat], minimize=minimize), 10.0, 100_000_000)
        except Exception as ex:  # noqa: BLE001
            r["violations"].append(viol("solve_hungarian", "raised", wit, f"solve_hungarian({rows}x{cols} planted matrix, minimize={minimize}): {type(ex).__name__}: {ex}"))
            continue
        a = res.solution
        r["outcomes"]["large:" + res.status.name] += 1
        used = [x for x in a if x != -1] if isinstance(a, list) else None
        if used is None or len(a) != rows or len(set(used)) != len(used) or len(used) != min(rows, cols) or any(x < -1 or x >= cols for x in a):
            r["violations"].append(viol("solve_hungarian", "pair_count", wit, f"solve_hungarian on {mat}: assignment {a} is not a matching of size {min(rows, cols)}"))
            continue
        tot = sum(mat[i][a[i]] for i in range(rows) if a[i] != -1)
        if tot != want or abs(res.objective - want) > 1e-9:
            r["violations"].append(viol("solve_hungarian", "not_optimal", wit, f"solve_hungarian on the {rows}x{cols} matrix {str(mat)[:120]}..., minimize={minimize}: assignment {a} totals {tot} (objective {res.objective}), the optimum known by construction is {want}"))
        if not r["samples"]:
            r["samples"].append({"rows": rows, "cols": cols})
    return r


def jobs(tier, seed):
    js = []
    for k in (1, 2, 3, 4):
        js.append(_job(1, k, A6))
        if k > 1:
            js.append(_job(k, 1, A6))
    js.append(_job(2, 2, A6))
    js.append(_job(3, 3, A4))
    for rc in ((2, 3), (3, 2), (2, 4), (4, 2)):
        js.append(_job(*rc, A4))
    js.append(_job(4, 4, A2))
    js.append(Job("large_planted", len(large_matrices()) + len(product_matrices()), _large_chunk, None, chunk=1, describe="1x11 ... 24x24 matrices with a planted optimal matching (value 0), ramps max(0, j-i) up to 30x30 (augmenting searches of 17-30 steps), product matrices (i+1)(j+1) with 9-20 rows and more columns (optimum by the rearrangement inequality); minimise and maximise"))
    for rc in ((2, 2), (2, 3), (3, 2), (3, 3)):
        js.append(_job(*rc, TINY, f"{rc[0]}x{rc[1]}_over_0_2^-40_1"))
    # costs far from zero with a small spread (every entry much larger than the differences between entries)
    OFF4 = (6, 7, 8, 9)
    OFF3 = (20, 21, 30)
    js.append(_job(2, 2, OFF4, "2x2_over_6_7_8_9"))
    js.append(_job(3, 3, OFF4, "3x3_over_6_7_8_9"))
    js.append(_job(2, 3, OFF4, "2x3_over_6_7_8_9"))
    js.append(_job(3, 2, OFF4, "3x2_over_6_7_8_9"))
    js.append(_job(3, 3, OFF3, "3x3_over_20_21_30"))
    js.append(_job(4, 4, (100, 140), "4x4_over_100_140"))
    nb = 2 * (3**2 + 3**2 + 3**6 + 3**6 + 3**3 + 3**3)
    js.append(Job("call_history_pairs", len(HIST_FIRST) * 2 * nb, _history_chunk, None, describe="a square solve followed by a rectangular solve of the same padded size; the second call is judged on its own (results must not depend on earlier calls)"))
    big = [(3, 4, A3), (4, 3, A3)]
    if tier == "thorough":
        for b in big:
            js.append(_job(*b))
        js.append(_job(3, 3, A6))
        js.append(_job(4, 4, A3, "4x4_over_3"))
    else:
        # rotating block: one sixteenth of 3x4 / 4x3 over {-1,0,2}, enumerated completely
        for rows, cols, alpha in big:
            size = 2 * len(alpha) ** (rows * cols)
            blocks = 16
            b = seed % blocks
            lo, hi = size * b // blocks, size * (b + 1) // blocks
            js.append(Job(f"{rows}x{cols}_over_3_block{b}of{blocks}", hi - lo, _chunk, (rows, cols, alpha, lo), describe="rotating block (VERIF_SEED)"))
    return js


def replay(v):
    w = v["witness"]
    if w.get("large"):
        for i, (mat, mn) in enumerate(large_matrices()):
            if mat == w["cost_matrix"] and mn == w["minimize"]:
                rr = _large_chunk(None, i, i + 1)
                return rr["violations"][0] if rr["violations"] else None
        return None
    for h in w.get("history", []):
        from solvor.hungarian import solve_hungarian

        solve_hungarian([list(x) for x in h["cost_matrix"]], minimize=h["minimize"])
    errs, _, _ = judge(w["cost_matrix"], w["minimize"])
    if errs:
        return {"function": "solve_hungarian", "kind": errs[0][0], "detail": errs[0][1]}
    return None
