"""C16 - knapsack / bin-packing answers are feasible, scored faithfully, labelled right (engine E1)."""

from __future__ import annotations

import functools
import itertools

from fractions import Fraction
from math import ceil

from vf.combi import digits
from vf.guard import call as gcall, too_many_hangs
from vf.core import Job, new_result, viol

LEVEL = "exploration"
RULE = (
    "E1: every knapsack instance with <=4 items, values and weights in {0..3}, capacity 0..6, minimize and maximize, "
    "plus a decimal family (3 items, weights in {0.1,0.25,0.3,0.5,0.7,1.5}, six capacities); every bin-packing instance "
    "with <=6 items of size 0..4, capacity 1..6 (sizes <= capacity) and a decimal family (sizes 0.1..0.9, capacity 1.0, "
    "<=5 items), for all four heuristics. Oracles: all subsets (exact rationals of the float inputs); all set partitions "
    "for the minimum number of bins. Non-trivial knapsack = not every item fits together; non-trivial packing = more "
    "than one bin is needed."
)
ASSUMPTIONS = [
    "integer/dyadic data is judged exactly; decimal data with the solver's own 1e-9 tolerance on loads, and an optimality "
    "competitor must be within capacity by more than 1e-9",
    "n <= 4 items (knapsack), <= 6 (7 thorough) items (packing); one family with integer capacities 100000..200000",
]

DEC_W = (0.1, 0.25, 0.3, 0.5, 0.7, 1.5)
DEC_C = (0.3, 0.5, 0.6, 1.0, 1.1, 2.0)


def judge_knapsack(values, weights, capacity, minimize, exact, optimality=True):
    from solvor.knapsack import solve_knapsack
    from solvor.types import Status

    n = len(values)
    try:
        res = gcall(lambda: solve_knapsack(list(values), list(weights), capacity, minimize=minimize))
    except Exception as ex:  # noqa: BLE001
        return [("raised", f"{type(ex).__name__}: {ex}")], "raised", False
    errs = []
    sel = res.solution
    if not isinstance(sel, tuple) or len(set(sel)) != len(sel) or any((not isinstance(i, int)) or i < 0 or i >= n for i in sel):
        return [("bad_indices", f"solution {sel!r}")], "bad", False
    fw = [Fraction(w) for w in weights]
    cap = Fraction(capacity)
    tol = Fraction(0) if exact else Fraction(1, 10**9)
    tw = sum((fw[i] for i in sel), Fraction(0))
    if tw > cap + tol:
        errs.append(("over_capacity", f"selected {sel} weighs {float(tw)} > capacity {capacity}"))
    tv = sum(values[i] for i in sel)
    if abs(tv - res.objective) > 1e-9:
        errs.append(("objective_not_sum", f"objective {res.objective}, selected values sum to {tv}"))
    best = None
    for m in range(1 << n):
        w = sum((fw[i] for i in range(n) if m >> i & 1), Fraction(0))
        if w <= cap - tol:
            v = sum(values[i] for i in range(n) if m >> i & 1)
            if best is None or (v < best if minimize else v > best):
                best = v
    if optimality and res.status == Status.OPTIMAL and best is not None:
        if (tv > best + 1e-9) if minimize else (tv < best - 1e-9):
            errs.append(("optimal_but_not_best", f"status OPTIMAL with value {tv}, but a subset within capacity has value {best}"))
    if res.status not in (Status.OPTIMAL, Status.FEASIBLE):
        errs.append(("status", f"status {res.status.name}"))
    return errs, res.status.name, sum(fw) > cap


def judge_binpack(sizes, capacity, algorithm, exact, opt):
    from solvor.bin_pack import solve_bin_pack
    from solvor.types import Status

    n = len(sizes)
    try:
        res = gcall(lambda: solve_bin_pack(list(sizes), capacity, algorithm=algorithm))
    except Exception as ex:  # noqa: BLE001
        return [("raised", f"{type(ex).__name__}: {ex}")], "raised"
    a = res.solution
    errs = []
    if not isinstance(a, tuple) or len(a) != n or any((not isinstance(b, int)) or b < 0 for b in a):
        return [("bad_assignment", f"assignment {a!r} does not give every item exactly one bin")], "bad"
    k = int(res.objective)
    if k != res.objective:
        errs.append(("objective", f"objective {res.objective} is not a bin count"))
    if n and sorted(set(a)) != list(range(k)):
        errs.append(("bin_numbering", f"bins used {sorted(set(a))}, objective {res.objective}"))
    fs = [Fraction(s) for s in sizes]
    cap = Fraction(capacity)
    tol = Fraction(0) if exact else Fraction(1, 10**9)
    loads = {}
    for i, b in enumerate(a):
        loads[b] = loads.get(b, Fraction(0)) + fs[i]
    for b, l in loads.items():
        if l > cap + tol:
            errs.append(("overfull_bin", f"bin {b} holds {float(l)} > capacity {capacity}: assignment {a}"))
            break
    if exact:
        lb = ceil(sum(fs) / cap)
    else:  # intended decimal values (one digit), not the binary floats that stand for them
        lb = ceil(sum(Fraction(int(round(s * 10)), 10) for s in sizes) / Fraction(int(round(capacity * 10)), 10))
    if k < lb:
        errs.append(("below_lower_bound", f"{k} bins < ceil(total/capacity) = {lb}"))
    if opt is not None:
        if "decreasing" in algorithm.lower() and k > Fraction(11, 9) * opt + Fraction(6, 9):
            errs.append(("guarantee", f"{algorithm} used {k} bins, optimum {opt}, bound 11/9*OPT+6/9 = {float(Fraction(11, 9) * opt + Fraction(6, 9)):.3f}"))
        if res.status == Status.OPTIMAL and k != opt:
            errs.append(("optimal_but_not_minimal", f"status OPTIMAL with {k} bins, minimum is {opt}"))
        if k < opt:
            errs.append(("below_optimum", f"{k} bins but the minimum over all partitions is {opt} (some bin must be overfull)"))
    if res.status not in (Status.OPTIMAL, Status.FEASIBLE):
        errs.append(("status", f"status {res.status.name}"))
    return errs, f"{res.status.name}:{min(k, 5)}"


def min_bins(fs, cap):
    """minimum number of bins over all set partitions (items placed one by one into an existing or a new bin)"""
    n = len(fs)
    best = [n if n else 0]
    order = sorted(range(n), key=lambda i: -fs[i])

    def rec(k, loads):
        if len(loads) >= best[0]:
            return
        if k == n:
            best[0] = len(loads)
            return
        s = fs[order[k]]
        seen = set()
        for b in range(len(loads)):
            if loads[b] + s <= cap and loads[b] not in seen:
                seen.add(loads[b])
                loads[b] += s
                rec(k + 1, loads)
                loads[b] -= s
        loads.append(s)
        rec(k + 1, loads)
        loads.pop()

    if n:
        rec(0, [])
    return max(best[0], 1) if n else 0


def _knap_chunk(params, lo, hi):
    n = params
    r = new_result()
    for idx in range(lo, hi):
        minimize = bool(idx % 2)
        k = idx // 2
        cap = k % 7
        ds = digits(k // 7, 16, n)
        values = [d % 4 for d in ds]
        weights = [d // 4 for d in ds]
        errs, label, nt = judge_knapsack(values, weights, cap, minimize, True)
        _rec(r, "solve_knapsack", errs, label, nt, {"values": values, "weights": weights, "capacity": cap, "minimize": minimize})
        if len(r["violations"]) >= 40 or too_many_hangs():
            r["capped"] = True
            break
    return r


def _knap_dec_chunk(params, lo, hi):
    n = params
    r = new_result()
    for idx in range(lo, hi):
        minimize = bool(idx % 2)
        k = idx // 2
        cap = DEC_C[k % 6]
        ds = digits(k // 6, 18, n)
        values = [1 + d % 3 for d in ds]
        weights = [DEC_W[d // 3] for d in ds]
        errs, label, nt = judge_knapsack(values, weights, cap, minimize, False)
        _rec(r, "solve_knapsack", errs, label, nt, {"values": values, "weights": weights, "capacity": cap, "minimize": minimize, "decimal": True})
        if len(r["violations"]) >= 40 or too_many_hangs():
            r["capped"] = True
            break
    return r


FINE_W = (0.3334, 0.5001, 0.2499, 0.0004)
FINE_C = (1.0, 0.75, 0.001)


def _knap_fine_chunk(params, lo, hi):
    """weights finer than the solver's scaling grid (1/1000 of the capacity): the DP works on floored weights and the
    statement claims exact optimality only for integer data, so only the capacity and objective clauses are judged"""
    n = params
    r = new_result()
    for idx in range(lo, hi):
        minimize = bool(idx % 2)
        k = idx // 2
        cap = FINE_C[k % 3]
        ds = digits(k // 3, 8, n)
        values = [1 + d % 2 for d in ds]
        weights = [FINE_W[d // 2] for d in ds]
        errs, label, nt = judge_knapsack(values, weights, cap, minimize, False, optimality=False)
        _rec(r, "solve_knapsack", errs, label, nt, {"values": values, "weights": weights, "capacity": cap, "minimize": minimize, "decimal": True, "fine": True})
        if len(r["violations"]) >= 40 or too_many_hangs():
            r["capped"] = True
            break
    return r


BIG_CAPS = (100000, 100001, 200000)


def _knap_big_chunk(params, lo, hi):
    """integer capacities above the 100000-cell threshold of the DP; weights relative to the capacity:
    index = ((cap*64 + weight_code)*8 + value_code)"""
    r = new_result()
    for idx in range(lo, hi):
        vc = digits(idx % 8, 2, 3)
        k = idx // 8
        wc = digits(k % 64, 4, 3)
        cap = BIG_CAPS[k // 64]
        walpha = (1, 2, cap - 2, cap)
        weights = [walpha[d] for d in wc]
        values = [(1, 10)[d] for d in vc]
        errs, label, nt = judge_knapsack(values, weights, cap, False, True)
        _rec(r, "solve_knapsack", errs, label, nt, {"values": values, "weights": weights, "capacity": cap, "minimize": False})
        if len(r["violations"]) >= 40 or too_many_hangs():
            r["capped"] = True
            break
    return r


ALGOS = ("first-fit", "best-fit", "first-fit-decreasing", "best-fit-decreasing")


def _bin_chunk(params, lo, hi):
    n, cap = params
    base = min(cap, 4) + 1
    r = new_result()
    for idx in range(lo, hi):
        sizes = digits(idx, base, n)
        opt = min_bins([Fraction(s) for s in sizes], Fraction(cap))
        for algo in ALGOS:
            errs, label = judge_binpack(sizes, cap, algo, True, opt)
            _rec(r, "solve_bin_pack", errs, label, opt > 1, {"sizes": sizes, "capacity": cap, "algorithm": algo})
        if len(r["violations"]) >= 40 or too_many_hangs():
            r["capped"] = True
            break
    return r


SPELLINGS = ALGOS + ("first_fit_decreasing", "BEST_FIT_DECREASING", "ff-decreasing", "bf_decreasing", "ff", "bf", "First-Fit", "Best_Fit")
TRIPLES = [(a, b, c) for a in range(1, 13) for b in range(a, 13) for c in range(b, 13)]


def _bin_triples_chunk(params, lo, hi):
    """nine items: three copies each of a <= b <= c (1..12) in bins of 20, listed ascending or interleaved (the orders that
    hurt an unsorted first fit most), under every accepted spelling of the algorithm name: the smallest size at which
    the 11/9 OPT + 6/9 clause separates the decreasing variants from the plain ones"""
    r = new_result()
    for idx in range(lo, hi):
        a, b, c = TRIPLES[idx // 2]
        sizes = [a, a, a, b, b, b, c, c, c] if idx % 2 == 0 else [a, b, c] * 3
        opt = min_bins([Fraction(x) for x in sizes], Fraction(20))
        for algo in SPELLINGS:
            errs, label = judge_binpack(sizes, 20, algo, True, opt)
            _rec(r, "solve_bin_pack", errs, label, opt > 1, {"sizes": sizes, "capacity": 20, "algorithm": algo})
        if len(r["violations"]) >= 40 or too_many_hangs():
            r["capped"] = True
            break
    return r


@functools.lru_cache(None)
def _multisets8():
    return list(itertools.combinations_with_replacement(range(1, 11), 8))


def _bin_multiset8_chunk(params, lo, hi):
    """every multiset of 8 item sizes from 1..10 in bins of capacity 10 (24 310 of them), listed ascending and interleaved,
    four algorithms: the smallest size at which first-fit-decreasing can be two bins above the optimum and at which
    'number of big items' arguments for optimality can be wrong. index = multiset*2 + order"""
    ms = _multisets8()
    r = new_result()
    for idx in range(lo, hi):
        sizes = list(ms[idx // 2])
        if idx % 2:
            sizes = sizes[::2] + sizes[1::2][::-1]
        opt = min_bins([Fraction(x) for x in sizes], Fraction(10))
        for algo in ALGOS:
            errs, label = judge_binpack(sizes, 10, algo, True, opt)
            _rec(r, "solve_bin_pack", errs, label, opt > 1, {"sizes": sizes, "capacity": 10, "algorithm": algo})
        if len(r["violations"]) >= 40 or too_many_hangs():
            r["capped"] = True
            break
    return r


def large_cases():
    """larger instances with optima known in closed form or by a plain integer DP (reference model)"""
    out = []
    vals = [i % 3 + 1 for i in range(70)]
    out.append(("knapsack", "70_unit_weights_cap35", vals, [1] * 70, 35))
    out.append(("knapsack", "40_items_weights_2_to_6_cap60", [(i * 7) % 11 + 1 for i in range(40)], [2 + i % 5 for i in range(40)], 60))
    out.append(("knapsack", "25_items_zero_and_big_weights_cap50", [(i * 5) % 9 for i in range(25)], [0 if i % 6 == 0 else 3 + (i * 4) % 17 for i in range(25)], 50))
    out.append(("binpack", "70_unit_items_cap10", [1] * 70, 10, 7))
    out.append(("binpack", "20_sixes_cap10", [6] * 20, 10, 20))
    out.append(("binpack", "20_fives_cap10", [5] * 20, 10, 10))
    out.append(("binpack", "sevens_then_threes_cap10", [7] * 10 + [3] * 10, 10, 10))
    out.append(("binpack", "threes_then_sevens_cap10", [3] * 10 + [7] * 10, 10, 10))
    out.append(("binpack", "alternating_7_3_cap10", [7, 3] * 10, 10, 10))
    out.append(("binpack", "12_fours_12_sixes_cap10", [4] * 12 + [6] * 12, 10, 12))
    return out


def _dp_knapsack(values, weights, cap, minimize):
    best = [0] * (cap + 1)
    for v, w in zip(values, weights):
        gain = -v if minimize else v
        if gain <= 0:
            continue
        for c in range(cap, w - 1, -1):
            if best[c - w] + gain > best[c]:
                best[c] = best[c - w] + gain
    return -best[cap] if minimize else best[cap]


def _large_chunk(params, lo, hi):
    from solvor.bin_pack import solve_bin_pack
    from solvor.knapsack import solve_knapsack
    from solvor.types import Status

    cases = large_cases()
    r = new_result()
    for idx in range(lo, hi):
        c = cases[idx]
        wit = {"large": c[1]}
        if c[0] == "knapsack":
            _, name, values, weights, cap = c
            for minimize in (False, True):
                vals = [-v for v in values] if minimize else values  # minimising negated values is the same problem
                r["n"] += 1
                r["nontrivial"] += 1
                try:
                    res = gcall(lambda: solve_knapsack(list(vals), list(weights), cap, minimize=minimize), 20.0, 300_000_000)
                except Exception as ex:  # noqa: BLE001
                    r["violations"].append(viol("solve_knapsack", "raised", dict(wit, minimize=minimize), f"solve_knapsack on {name}, minimize={minimize}: {type(ex).__name__}: {ex}"))
                    continue
                r["outcomes"]["large:knapsack:" + res.status.name] += 1
                sel = res.solution
                errs = []
                if not isinstance(sel, tuple) or len(set(sel)) != len(sel) or any(i < 0 or i >= len(vals) for i in sel):
                    errs.append(("bad_indices", f"solution {sel!r}"))
                else:
                    if sum(weights[i] for i in sel) > cap:
                        errs.append(("over_capacity", f"selected weight {sum(weights[i] for i in sel)} > {cap}"))
                    tv = sum(vals[i] for i in sel)
                    if abs(tv - res.objective) > 1e-9:
                        errs.append(("objective_not_sum", f"objective {res.objective}, selected values sum to {tv}"))
                    want = _dp_knapsack(vals, weights, cap, minimize)
                    if res.status == Status.OPTIMAL and tv != want:
                        errs.append(("optimal_but_not_best", f"status OPTIMAL with value {tv}, the integer DP finds {want}"))
                for kind, detail in errs:
                    r["violations"].append(viol("solve_knapsack", kind, dict(wit, minimize=minimize), f"solve_knapsack on {name}, minimize={minimize}: {detail}"))
        else:
            _, name, sizes, cap, opt = c
            for algo in ALGOS:
                errs, label = judge_binpack(sizes, cap, algo, True, opt)
                _rec(r, "solve_bin_pack", errs, label, True, dict(wit, algorithm=algo, sizes=sizes, capacity=cap))
        if not r["samples"]:
            r["samples"].append(wit)
    return r


def _bin_dec_chunk(params, lo, hi):
    if isinstance(params, tuple):
        n, tenths = params
    else:
        n, tenths = params, 10
    capacity = tenths / 10
    r = new_result()
    for idx in range(lo, hi):
        sizes = [(d + 1) / 10 for d in digits(idx, min(9, tenths), n)]
        # optimum in exact decimal arithmetic (the intended values), loads judged with the 1e-9 tolerance
        opt = min_bins([Fraction(int(round(s * 10)), 10) for s in sizes], Fraction(tenths, 10))
        for algo in ALGOS:
            errs, label = judge_binpack(sizes, capacity, algo, False, opt)
            _rec(r, "solve_bin_pack", errs, label, opt > 1, {"sizes": sizes, "capacity": capacity, "algorithm": algo, "decimal": True})
        if len(r["violations"]) >= 40 or too_many_hangs():
            r["capped"] = True
            break
    return r


def _rec(r, fname, errs, label, nt, wit):
    r["n"] += 1
    r["outcomes"][f"{fname}:{label}"] += 1
    if nt:
        r["nontrivial"] += 1
    if not r["samples"]:
        r["samples"].append(wit)
    for kind, detail in errs:
        r["violations"].append(viol(fname, kind, wit, f"{fname}({wit}): {detail}"))


def jobs(tier, seed):
    js = []
    for n in (1, 2, 3, 4):
        js.append(Job(f"knapsack_n{n}", 16**n * 7 * 2, _knap_chunk, n, describe="values, weights in {0..3}, capacity 0..6, max and min"))
    for n in (1, 2, 3):
        js.append(Job(f"knapsack_decimal_n{n}", 18**n * 6 * 2, _knap_dec_chunk, n, describe="decimal weights/capacities, values 1..3"))
    for n in (2, 3, 4):
        js.append(Job(f"knapsack_fine_decimal_n{n}", 8**n * 3 * 2, _knap_fine_chunk, n, describe="weights in {0.3334,0.5001,0.2499,0.0004} (finer than the DP's scaling grid), capacities {1.0,0.75,0.001}, values {1,2}: capacity and objective clauses only"))
    js.append(Job("large_closed_form", len(large_cases()), _large_chunk, None, chunk=1, describe="knapsacks with 25-70 items (reference: plain integer DP), bin packing with 20-70 items whose optimum is known in closed form, four algorithms"))
    js.append(Job("binpack_8_items_all_multisets_cap10", 24310 * 2, _bin_multiset8_chunk, None, describe="every multiset of 8 sizes from 1..10, capacity 10, ascending and interleaved order, four algorithms"))
    js.append(Job("binpack_nine_items_three_sizes", len(TRIPLES) * 2, _bin_triples_chunk, None, describe="3 copies each of a<=b<=c in 1..12, capacity 20, ascending and interleaved order, 12 spellings of the four algorithm names"))
    js.append(Job("knapsack_big_integer_capacity", 3 * 64 * 8, _knap_big_chunk, None, chunk=8, describe="3 items, capacity in {100000,100001,200000}, weights in {1,2,C-2,C}, values {1,10}: exact integer data beyond the DP's table threshold"))
    for tenths, nmax_d in ((3, 5), (7, 5), (9, 4 if tier == "quick" else 5)):
        for n in range(1, nmax_d + 1):
            js.append(Job(f"binpack_decimal_cap0{tenths}_n{n}", min(9, tenths) ** n, _bin_dec_chunk, (n, tenths), describe=f"sizes 0.1..{tenths / 10}, capacity {tenths / 10}"))
    nmax = 7 if tier == "thorough" else 6
    for n in range(1, nmax + 1):
        for cap in range(1, 7):
            js.append(Job(f"binpack_n{n}_cap{cap}", (min(cap, 4) + 1) ** n, _bin_chunk, (n, cap), describe="sizes 0..min(cap,4), four algorithms"))
    for n in range(1, 6):
        js.append(Job(f"binpack_decimal_n{n}", 9**n, _bin_dec_chunk, n, describe="sizes 0.1..0.9, capacity 1.0"))
    return js


def replay(v):
    w = v["witness"]
    if w.get("large"):
        names = [c[1] for c in large_cases()]
        i = names.index(w["large"])
        rr = _large_chunk(None, i, i + 1)
        for x in rr["violations"]:
            if x["kind"] == v["kind"] and x["witness"].get("algorithm") == w.get("algorithm") and x["witness"].get("minimize") == w.get("minimize"):
                return x
        return None
    if v["function"] == "solve_knapsack":
        errs, _, _ = judge_knapsack(w["values"], w["weights"], w["capacity"], w["minimize"], not w.get("decimal"), optimality=not w.get("fine"))
    else:
        if w.get("decimal"):
            opt = min_bins([Fraction(int(round(s * 10)), 10) for s in w["sizes"]], Fraction(int(round(w["capacity"] * 10)), 10))
        else:
            opt = min_bins([Fraction(s) for s in w["sizes"]], Fraction(w["capacity"]))
        errs, _ = judge_binpack(w["sizes"], w["capacity"], w["algorithm"], not w.get("decimal"), opt)
    if errs:
        return {"function": v["function"], "kind": errs[0][0], "detail": errs[0][1]}
    return None
