"""Runner for the solvOR model-checking checks.

A *check* is a module ``checks/<id>.py`` exposing

    LEVEL      = "exploration" | "model_checking"
    RULE       = how cases are enumerated / what counts as non-trivial
    ASSUMPTIONS = [...]
    def jobs(tier, seed) -> list[Job]

A Job is a finite, completely enumerated index range ``[0, size)`` of one declared
space; ``func(params, lo, hi)`` (module level, so it pickles) executes the cases of a
chunk against the real code in /repo and returns a ChunkResult dict:

    n            cases executed
    nontrivial   how many of them were non-trivial by RULE (cases of one space are
                 pairwise distinct by construction: the index decode is injective)
    outcomes     {label: count}  observed outcome classes (vacuity guard)
    counters     {label: count}  mechanism counters, states/transitions for E2/E3
    violations   [ {function, kind, witness, observed, expected, detail, predicates} ]
    samples      up to 2 cases written out
    capped       True if a cap was hit (then the run is not called exhaustive)

The runner fans the chunks over a process pool, aggregates, minimises nothing itself
(checks hand back already-small witnesses: the enumerations are smallest-first), matches
violations against /verif/known_findings.json, writes replay files and evidence.
"""

from __future__ import annotations

import argparse
import hashlib
import importlib
import json
import multiprocessing as mp
import os
import sys
import time
import traceback
from collections import Counter
from dataclasses import dataclass, field
from typing import Any, Callable

VERIF = os.path.dirname(os.path.dirname(os.path.abspath(__file__)))
REPO = os.environ.get("SOLVOR_REPO", "/repo")


def setup_paths() -> None:
    """Make the working tree in /repo the code that is executed."""
    for p in (REPO, VERIF):
        if p in sys.path:
            sys.path.remove(p)
    overlay = os.environ.get("SOLVOR_OVERLAY")
    sys.path.insert(0, VERIF)
    sys.path.insert(0, overlay or REPO)


@dataclass
class Job:
    name: str
    size: int
    func: Callable[[Any, int, int], dict]
    params: Any = None
    chunk: int = 0  # 0 = auto
    weight: float = 1.0  # relative cost per case (for chunk sizing)
    describe: str = ""


def new_result() -> dict:
    return {
        "n": 0,
        "nontrivial": 0,
        "outcomes": Counter(),
        "counters": Counter(),
        "violations": [],
        "samples": [],
        "capped": False,
    }


class HarnessError(Exception):
    """The check itself is broken (oracle self-check failed, build failed ...)."""


_ABORT = None  # multiprocessing.Value shared with the workers: stop early once plenty of violations are known


_WORKER_LOG = []  # chunks this (long-lived) pool worker has executed so far, in order


def _run_task(task):
    jname, func, params, lo, hi = task
    prior = list(_WORKER_LOG)
    _WORKER_LOG.append([jname, lo, hi])
    if _ABORT is not None and _ABORT.value:
        r = new_result()
        r["capped"] = True
        return jname, lo, hi, r, None
    try:
        from vf import guard

        guard.HANGS[0] = 0
        t_chunk = time.process_time()
        r = func(params, lo, hi)
        r["cpu_s"] = time.process_time() - t_chunk
        for v in r["violations"]:
            v["_chunk"] = [jname, lo, hi]  # replay handle for failures that depend on the calls made before them
            v["_prior_chunks"] = prior  # ... including the chunks the same worker process ran earlier
        if guard.HANGS[0]:
            r["counters"]["hangs"] = max(r["counters"].get("hangs", 0), guard.HANGS[0])
            if guard.HANGS[0] >= 2:
                r["capped"] = True
        return jname, lo, hi, r, None
    except HarnessError as e:
        return jname, lo, hi, None, "HARNESS: " + str(e)
    except BaseException:  # noqa: BLE001 - report, the parent decides
        return jname, lo, hi, None, "HARNESS: " + traceback.format_exc()


HISTORY_WINDOW = 60


def history_plan(jobs):
    """Deterministic 'reverse pass': the first HISTORY_WINDOW indices of every space, spaces in reverse order, indices in
    reverse order, executed one by one in ONE fresh process. Larger shapes therefore run before smaller ones, which exposes
    state that leaks from one call into the next (caches or scratch buffers at module scope) independently of how the
    pool happened to schedule the chunks."""
    plan = []
    for j in reversed(jobs):
        w = HISTORY_WINDOW if not j.chunk else 0  # spaces with an explicit chunk size have expensive cases: left out
        for i in reversed(range(min(j.size, w))):
            plan.append((j.name, i))
    return plan


def _history_pass(jobs, upto, conn):
    try:
        setup_paths()
        from vf import guard

        byname = {j.name: j for j in jobs}
        r = new_result()
        pos = 0
        for name, i in history_plan(jobs)[: upto if upto is not None else None]:
            j = byname[name]
            guard.HANGS[0] = 0
            x = j.func(j.params, i, i + 1)
            pos += 1
            r["n"] += x["n"]
            r["outcomes"].update(x["outcomes"])
            for v in x["violations"]:
                v["_chunk"] = ["__history__", 0, pos]
                v.setdefault("space", name)
                r["violations"].append(v)
            if len(r["violations"]) >= 40 or x["counters"].get("hangs", 0) >= 2:
                r["capped"] = True
                break
        conn.send((r, None))
    except BaseException:  # noqa: BLE001
        conn.send((None, traceback.format_exc()))


def run_history_pass(jobs, upto=None, timeout=1200):
    ctx = mp.get_context("fork")
    a, b = ctx.Pipe(duplex=False)
    p = ctx.Process(target=_history_pass, args=(jobs, upto, b))
    p.start()
    out = (None, "history pass timed out")
    if a.poll(timeout):
        out = a.recv()
    p.join(5)
    if p.is_alive():
        p.terminate()
    return out


def _init_worker():
    setup_paths()
    os.environ.setdefault("PYTHONHASHSEED", "0")


def vkey(v: dict) -> str:
    blob = json.dumps([v.get("function"), v.get("kind"), v.get("witness")], sort_keys=True, default=repr)  # _chunk is not part of the identity
    return hashlib.sha1(blob.encode()).hexdigest()[:16]


def load_findings(pid: str) -> list[dict]:
    path = os.path.join(VERIF, "known_findings.json")
    if not os.path.exists(path):
        return []
    with open(path) as f:
        data = json.load(f)
    return [e for e in data.get("findings", []) if e.get("property") == pid]


def match_finding(v: dict, findings: list[dict]) -> dict | None:
    """An open finding suppresses a violation only if function, kind and the concrete witness
    (or a named witness predicate the check attached to the violation) coincide."""
    for e in findings:
        if e.get("status") != "open":
            continue
        m = e.get("match", {})
        if m.get("function") != v.get("function") or m.get("kind") != v.get("kind"):
            continue
        if "witness" in m:
            if json.dumps(m["witness"], sort_keys=True) == json.dumps(v.get("witness"), sort_keys=True, default=repr):
                return e
            continue
        if "predicate" in m and m["predicate"] in (v.get("predicates") or []):
            return e
    return None


def write_replay(pid: str, v: dict, tier: str = "quick", seed: int = 0) -> str:
    d = os.path.join(VERIF, "replays", pid)
    os.makedirs(d, exist_ok=True)
    key = vkey(v)
    path = os.path.join(d, key + ".json")
    body = dict(v)
    body["property"] = pid
    body["_tier"], body["_seed"] = tier, seed
    body["replay_cmd"] = f"./check {pid} --replay replays/{pid}/{key}.json"
    with open(path, "w") as f:
        json.dump(body, f, indent=1, sort_keys=True, default=repr)
    return path


def run_check(pid: str, tier: str, seed: int, procs: int, only: str | None = None) -> int:
    setup_paths()
    t0 = time.time()
    mod = importlib.import_module("checks." + pid.lower())
    try:
        jobs: list[Job] = mod.jobs(tier, seed)
    except HarnessError as e:
        print(f"HARNESS-ERROR property={pid} {e}")
        return 2
    if only:
        jobs = [j for j in jobs if only in j.name]
    if len({j.name for j in jobs}) != len(jobs):
        print(f"HARNESS-ERROR property={pid} duplicate space names")
        return 2
    tasks = []
    target_chunks = procs * 8
    for j in jobs:
        if j.size <= 0:
            continue
        ch = j.chunk or max(1, min(j.size // target_chunks + 1, 200000))
        for lo in range(0, j.size, ch):
            tasks.append((j.name, j.func, j.params, lo, min(j.size, lo + ch)))
    agg = {j.name: new_result() for j in jobs}
    done = {j.name: 0 for j in jobs}
    harness_errors = []
    global _ABORT
    ctx = mp.get_context("fork")
    _ABORT = ctx.Value("i", 0)
    n_viol = 0
    n_hang = 0
    if procs <= 1 or len(tasks) <= 1:
        it = map(_run_task, tasks)
        pool = None
    else:
        pool = ctx.Pool(procs, initializer=_init_worker)
        it = pool.imap_unordered(_run_task, tasks, chunksize=1)
    stall = float(os.environ.get("VERIF_STALL_S", "1500"))

    def results():
        if pool is None:
            yield from it
            return
        while True:
            try:
                yield it.next(timeout=stall)
            except StopIteration:
                return
            except mp.TimeoutError:
                harness_errors.append(("*", 0, 0, f"HARNESS: no chunk finished within {stall:.0f}s (a case neither returns nor reacts to SIGALRM)"))
                return

    try:
        for jname, lo, hi, r, err in results():
            if err:
                harness_errors.append((jname, lo, hi, err))
                continue
            a = agg[jname]
            a["n"] += r["n"]
            a["nontrivial"] += r["nontrivial"]
            a["outcomes"].update(r["outcomes"])
            a["counters"].update(r["counters"])
            a["violations"].extend(r["violations"][:50])
            if len(a["samples"]) < 2:
                a["samples"].extend(r["samples"][: 2 - len(a["samples"])])
            a["capped"] = a["capped"] or r["capped"]
            a["cpu_s"] = a.get("cpu_s", 0.0) + r.get("cpu_s", 0.0)
            done[jname] += hi - lo
            n_viol += len(r["violations"])
            n_hang += r["counters"].get("hangs", 0)
            if n_viol >= 200 or n_hang >= 12:
                _ABORT.value = 1  # remaining chunks return at once, marked capped
    finally:
        if pool is not None:
            pool.terminate()
            pool.join()
    hist = None
    if not only and not _ABORT.value and os.environ.get("VERIF_NO_HISTORY_PASS") != "1":
        hist, herr = run_history_pass(jobs)
        if herr:
            harness_errors.append(("__history__", 0, 0, "HARNESS: " + herr))
    wall = time.time() - t0

    if harness_errors:
        for jname, lo, hi, err in harness_errors[:5]:
            print(f"HARNESS-ERROR property={pid} job={jname} chunk=[{lo},{hi})\n{err}")
        return 2

    findings = load_findings(pid)
    all_v = []
    for j in jobs:
        for v in agg[j.name]["violations"]:
            v.setdefault("space", j.name)
            all_v.append(v)
    if hist:
        all_v.extend(hist["violations"])
    # de-duplicate by key, keep enumeration order (smallest first within a space)
    seen = set()
    uniq = []
    for v in all_v:
        k = vkey(v)
        if k not in seen:
            seen.add(k)
            uniq.append(v)
    known_hits: dict[str, int] = Counter()
    fresh = []
    for v in uniq:
        e = match_finding(v, findings)
        if e is not None:
            known_hits[e["id"]] += 1
        else:
            fresh.append(v)
    for e in findings:
        if e.get("status") == "open" and known_hits.get(e["id"]):
            print(f"KNOWN-FINDING: property={pid} {e['id']}: {e['summary']} (matched {known_hits[e['id']]} witnesses)")

    exhaustive = all(done[j.name] == j.size and not agg[j.name]["capped"] for j in jobs)
    total_n = sum(a["n"] for a in agg.values())
    total_nt = sum(a["nontrivial"] for a in agg.values())
    outcomes = Counter()
    counters = Counter()
    for a in agg.values():
        outcomes.update(a["outcomes"])
        counters.update(a["counters"])
    samples = []
    for j in jobs:
        for s in agg[j.name]["samples"][:1]:
            samples.append({"space": j.name, "case": s})
    spaces = [
        {
            "name": j.name,
            "size": j.size,
            "enumerated": done[j.name],
            "executions": agg[j.name]["n"],
            "nontrivial": agg[j.name]["nontrivial"],
            "outcomes": dict(agg[j.name]["outcomes"]),
            "capped": agg[j.name]["capped"],
            "cpu_s": round(agg[j.name].get("cpu_s", 0.0), 1),
            "describe": j.describe,
        }
        for j in jobs
    ]
    coverage: dict[str, Any] = {
        "evaluations": total_n,
        "distinct_nontrivial": total_nt,
        "rule": mod.RULE,
        "samples": samples[:12] or [{"note": "no case executed"}],
        "exhaustive": bool(exhaustive),
        "spaces": spaces,
        "distinct_outcomes": len(outcomes),
        "outcomes": dict(outcomes),
        "counters": dict(counters),
        "known_findings_matched": dict(known_hits),
        "history_pass": {"executions": hist["n"] if hist else 0, "window_per_space": HISTORY_WINDOW, "capped": bool(hist and hist["capped"]), "what": "first indices of every space re-run in reverse space/index order in one fresh process (call-history independence)"},
        "vacuous": len(outcomes) <= 1,
    }
    if mod.LEVEL == "model_checking":
        coverage["states"] = int(counters.get("states", 0))
        coverage["transitions"] = int(counters.get("transitions", 0))
        coverage["traces_validated_against_impl"] = int(counters.get("traces", total_n))
    if hasattr(mod, "extra_coverage"):
        coverage.update(mod.extra_coverage(tier, seed, counters))
    ev = {
        "property_id": pid,
        "tier": tier,
        "seed": seed,
        "level": mod.LEVEL,
        "coverage": coverage,
        "assumptions": list(mod.ASSUMPTIONS),
        "wall_s": round(wall, 2),
        "violations": len(fresh),
    }
    evdir = os.path.join(VERIF, "evidence")
    if REPO != "/repo" or only:
        # debugging runs (scratch tree, or a subset of the spaces) never overwrite the real evidence
        evdir = os.environ.get("VERIF_SCRATCH_EVIDENCE", "/var/tmp/solvor-verif/scratch-evidence")
    os.makedirs(evdir, exist_ok=True)
    evpath = os.path.join(evdir, pid + ".json")
    with open(evpath + ".tmp", "w") as f:
        json.dump(ev, f, indent=1, sort_keys=True, default=repr)
    os.replace(evpath + ".tmp", evpath)

    print(
        f"{pid} tier={tier} seed={seed} spaces={len(jobs)} executions={total_n} nontrivial={total_nt} "
        f"outcomes={len(outcomes)} exhaustive={exhaustive} known={sum(known_hits.values())} "
        f"violations={len(fresh)} wall={wall:.1f}s"
    )
    if fresh:
        hist = Counter((v.get("function"), v.get("kind")) for v in fresh)
        print("  violation kinds: " + ", ".join(f"{f}/{k} x{n}" for (f, k), n in hist.most_common()))
        for v in fresh[:10]:
            path = write_replay(pid, v, tier, seed)
            print(f"  {v.get('function')} {v.get('kind')}: {str(v.get('detail'))[:300]}")
            print(f"VIOLATION property={pid} replay={os.path.relpath(path, VERIF)}")
        if len(fresh) > 10:
            print(f"  ... and {len(fresh) - 10} more distinct violating cases")
        return 1
    return 0


def _replay_chunks(byname, chunks, want):
    setup_paths()
    for name, lo, hi in chunks:
        j = byname.get(name)
        if j is None:
            continue
        r = j.func(j.params, lo, hi)
        for x in r["violations"]:
            if vkey(x) == want:
                return x
    return None


def _replay_single(mod, v):
    setup_paths()
    return mod.replay(v)


def _in_fresh_process(fn, *args, timeout=3600):
    ctx = mp.get_context("fork")
    a, b = ctx.Pipe(duplex=False)

    def child():
        try:
            b.send(("ok", fn(*args)))
        except BaseException:  # noqa: BLE001
            b.send(("error", traceback.format_exc()))

    p = ctx.Process(target=child)
    p.start()
    out = a.recv() if a.poll(timeout) else ("error", "replay attempt timed out")
    p.join(5)
    if p.is_alive():
        p.terminate()
    if out[0] == "error":
        raise HarnessError("replay failed: " + out[1])
    return out[1]


def run_replay(pid: str, path: str) -> int:
    setup_paths()
    mod = importlib.import_module("checks." + pid.lower())
    with open(path) as f:
        v = json.load(f)
    # every attempt runs in its own fresh process: nothing an earlier attempt computed (caches, module state) may decide a later one
    a = _in_fresh_process(_replay_single, mod, v)
    b = _in_fresh_process(_replay_single, mod, v)
    if json.dumps(a, sort_keys=True, default=repr) != json.dumps(b, sort_keys=True, default=repr):
        print(f"HARNESS-ERROR property={pid} replay not deterministic")
        return 2
    if not a and v.get("_chunk"):
        # the case passes on its own: re-run the chunk it was found in (same call history) in this fresh process
        jname, lo, hi = v["_chunk"]
        if jname == "__history__":
            r, herr = run_history_pass(mod.jobs(v.get("_tier", "quick"), int(v.get("_seed", 0))), upto=hi)
            for x in (r or {"violations": []})["violations"]:
                if vkey(x) == vkey(v):
                    a = dict(x, detail="(only after the preceding calls of the reverse pass) " + str(x.get("detail")))
                    break
        byname = {j.name: j for j in mod.jobs(v.get("_tier", "quick"), int(v.get("_seed", 0)))} if jname != "__history__" else {}
        want = vkey(v)
        # first the chunk alone, then preceded by everything the worker process had run before it (in a fresh process
        # each time, so that nothing leaks from one attempt into the next)
        for prefix, note in (([], "its chunk"), (v.get("_prior_chunks") or [], "the chunks its worker process had run")):
            if a or jname not in byname or (note != "its chunk" and not prefix):
                continue
            got = _in_fresh_process(_replay_chunks, byname, prefix + [[jname, lo, hi]], want)
            if got:
                a = dict(got, detail=f"(only after the preceding calls of {note}) " + str(got.get("detail")))
    if a:
        print(f"  {a.get('function')} {a.get('kind')}: {a.get('detail')}")
        print(f"VIOLATION property={pid} replay={path}")
        return 1
    print(f"{pid} replay {path}: property holds on this case")
    return 0


def main(argv=None) -> int:
    ap = argparse.ArgumentParser(prog="check")
    ap.add_argument("pid")
    ap.add_argument("--tier", default=os.environ.get("VERIF_TIER", "quick"), choices=["quick", "thorough"])
    ap.add_argument("--replay")
    ap.add_argument("--procs", type=int, default=int(os.environ.get("VERIF_PROCS", "0")) or os.cpu_count() or 4)
    ap.add_argument("--only", help="run only the spaces whose name contains this string (debugging; evidence marks it)")
    a = ap.parse_args(argv)
    seed = int(os.environ.get("VERIF_SEED", "0") or 0)
    pid = a.pid.upper()
    if a.replay:
        try:
            return run_replay(pid, a.replay)
        except HarnessError as e:
            print(f"HARNESS-ERROR property={pid} {e}")
            return 2
    return run_check(pid, a.tier, seed, a.procs, a.only)


if __name__ == "__main__":
    sys.exit(main())


def viol(function, kind, witness, detail, predicates=None):
    return {"function": function, "kind": kind, "witness": witness, "detail": detail, "predicates": predicates or []}


def indexed_chunk(fn, params, lo, hi, max_viol=40):
    """Common body of an E1 chunk function: fn(params, idx, r) executes case idx and updates r."""
    r = new_result()
    for idx in range(lo, hi):
        fn(params, idx, r)
        if len(r["violations"]) >= max_viol or r["counters"].get("hangs", 0) >= 2:
            r["capped"] = True
            break
    return r


def mixed_radix(idx, radices):
    out = []
    for b in radices:
        out.append(idx % b)
        idx //= b
    return out
