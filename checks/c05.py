"""C05 - CP Model.solve never returns an assignment that breaks an added constraint (engine E1 over programs)."""

from __future__ import annotations

from checks import cplib
from vf.core import Job, new_result, viol
from vf.guard import SolverHang, too_many_hangs
from vf.guard import call as gcall

LEVEL = "exploration"
RULE = (
    "E1 over programs: every model of the grammar (2-3 named variables with domains from {[0,2],[1,3],[-1,1],[2,3],[0,0]}; "
    "one comparison lhs ==/!= rhs with lhs, rhs ranging over every expression shape of the menu (x, c, x+c, c+x, x-c, c-x, "
    "x+y, x-y, k*x, x*k, (x+y)+z, x+(y+c), (x+c)+(y+d), (x+y)-z, k*x+y, 2*(x+y), ...); pairs of constraints; all_different; "
    "sum_eq/le/ge with 1-5 terms and every target; circuit with arbitrary interval successor domains; no_overlap; "
    "cumulative incl. >10 candidate literals per time point) is built through the public operators and solved with "
    "solver in {auto,dfs,sat} x solution_limit in {1,3,10^6} and with four kinds of hints. Oracle: brute force over the "
    "domain product with the harness's own evaluator. Non-trivial = the model has at least one solution and at least "
    "one non-solution."
)
ASSUMPTIONS = [
    "domains of width <= 4, <= 5 variables (brute-force oracle)",
    "all variables are named (unnamed variables are not reported by Model.solve)",
    "circuit on a single node is left out (whether the self loop 0->0 is a circuit is a matter of convention)",
    "comparisons whose two sides are both constants evaluate to a Python bool and are not CP constraints (skipped)",
]

NAMES = "xyzuvwabcdefgh"


def configs(doms, sols, full):
    cf = []
    for solver in ("auto", "dfs", "sat"):
        for lim in (1, 3, 10**6) if full else (1, 10**6):
            cf.append((solver, lim, None, "none"))
    if not full:
        return cf
    hints = []
    if sols:
        hints.append(({NAMES[0]: sols[0][0]}, "value_of_a_solution"))
        if len(doms) > 1:
            hints.append(({NAMES[0]: sols[-1][0], NAMES[1]: sols[-1][1]}, "values_of_a_solution"))
    for i, (lo, hi) in enumerate(doms[:2]):
        bad = [v for v in range(lo, hi + 1) if all(s[i] != v for s in sols)]
        if bad:
            hints.append(({NAMES[i]: bad[0]}, "value_of_no_solution"))
            break
    hints.append(({NAMES[0]: doms[0][1] + 5}, "out_of_domain"))
    hints.append(({"q": 1}, "unknown_name"))
    for h, kind in hints:
        for solver in ("auto", "dfs", "sat"):
            cf.append((solver, 1, h, kind))
    return cf


def judge(doms, cons, solver, limit, hints, sols, solset):
    from solvor.types import Status

    m, xs, ok = cplib.make_model(doms, cons)
    if not ok:
        return None, "skipped"
    kw = {"solver": solver, "solution_limit": limit}
    if hints is not None:
        kw["hints"] = hints
    try:
        res = gcall(lambda: m.solve(**kw), 5.0, 50_000_000)
    except SolverHang as ex:
        return [("nontermination", str(ex))], "hang"
    except Exception as ex:  # noqa: BLE001
        return [("raised", f"{type(ex).__name__}: {ex}")], "raised"
    errs = []
    names = NAMES[: len(doms)]
    returned = []
    if res.solution is not None:
        returned.append(("solution", res.solution))
    if res.solutions is not None:
        for i, s in enumerate(res.solutions):
            returned.append((f"solutions[{i}]", s))
    for nm, s in returned:
        if not isinstance(s, dict) or set(s) != set(names):
            errs.append(("missing_variable", f"{nm} = {s!r} does not name exactly the variables {list(names)}"))
            continue
        a = tuple(s[n] for n in names)
        if any(not (lo <= v <= hi) for v, (lo, hi) in zip(a, doms)):
            errs.append(("out_of_domain", f"{nm} = {s} leaves a declared domain {doms}"))
        elif a not in solset:
            broken = [cplib.show_con(c) for c in cons if not cplib.holds(c, a)]
            errs.append(("constraint_broken", f"{nm} = {s} breaks {broken}"))
    if res.status == Status.INFEASIBLE:
        if sols:
            errs.append(("wrong_infeasible", f"INFEASIBLE but {dict(zip(names, sols[0]))} satisfies every constraint ({len(sols)} solutions)"))
    elif res.status == Status.OPTIMAL:
        if res.solution is None:
            errs.append(("no_solution_returned", "status OPTIMAL without a solution"))
    elif res.status != Status.MAX_ITER:
        errs.append(("status", f"status {res.status.name}"))
    if res.solutions is not None and len(res.solutions) > limit:
        errs.append(("too_many_solutions", f"{len(res.solutions)} solutions for solution_limit={limit}"))
    return errs, res.status.name


def run_model(r, doms, cons, full):
    sols = cplib.solutions(doms, cons)
    solset = set(sols)
    total = 1
    for lo, hi in doms:
        total *= hi - lo + 1
    nontrivial = 0 < len(sols) < total
    wit0 = {"domains": [list(d) for d in doms], "constraints": [_jsonable(c) for c in cons]}
    for solver, limit, hints, hkind in configs(doms, sols, full):
        errs, label = judge(doms, cons, solver, limit, hints, sols, solset)
        if errs is None:
            r["counters"]["skipped_constant_comparison"] += 1
            return
        r["n"] += 1
        r["outcomes"][f"{solver}:{label}"] += 1
        if label == "hang":
            r["counters"]["hangs"] += 1
        if nontrivial:
            r["nontrivial"] += 1
        for kind, detail in errs:
            wit = dict(wit0, solver=solver, solution_limit=limit, hints=hints)
            r["violations"].append(
                viol("Model.solve", kind, wit, f"domains {doms}, constraints {[cplib.show_con(c) for c in cons]}, solver={solver}, solution_limit={limit}, hints={hints}: {detail}")
            )
    if not r["samples"]:
        r["samples"].append(dict(wit0, shown=[cplib.show_con(c) for c in cons]))


def _jsonable(x):
    if isinstance(x, tuple):
        return [_jsonable(v) for v in x]
    return x


def _tuplify(x):
    if isinstance(x, list):
        return tuple(_tuplify(v) for v in x)
    return x


SPACES = {
    "cmp2": (lambda i: cplib.space_cmp(i, 1, True), lambda: cplib.size_cmp(1, True)),
    "cmp3": (lambda i: cplib.space_cmp(i, 2, False), lambda: cplib.size_cmp(2, False)),
    "pair": (cplib.space_pair, cplib.size_pair),
    "alldiff": (cplib.space_alldiff, lambda: 2 * 125),
    "mixed": (cplib.space_mixed, cplib.size_mixed),
}
for _n in (1, 2, 3, 4, 5):
    SPACES[f"sum{_n}"] = (lambda i, n=_n: cplib.space_sum(i, n), lambda n=_n: cplib.size_sum(n))
for _n in (1, 2, 3, 4, 5):
    SPACES[f"circuit{_n}"] = (lambda i, n=_n: cplib.space_circuit(i, n, False), lambda n=_n: cplib.size_circuit(n, False))
    SPACES[f"circuit{_n}_outside"] = (lambda i, n=_n: cplib.space_circuit(i, n, True), lambda n=_n: cplib.size_circuit(n, True))
for _n in (2, 3):
    SPACES[f"no_overlap{_n}"] = (lambda i, n=_n: cplib.space_no_overlap(i, n), lambda n=_n: cplib.size_no_overlap(n))
for _n in (1, 2, 3, 4):
    SPACES[f"cumulative{_n}"] = (lambda i, n=_n: cplib.space_cumulative(i, n), lambda n=_n: cplib.size_cumulative(n))
for _n in (2, 3):
    # a task of duration 0 is never running: it may start anywhere, also strictly inside another task
    SPACES[f"cumulative{_n}_dur013"] = (lambda i, n=_n: cplib.space_cumulative(i, n, None, (0, 1, 3)), lambda n=_n: cplib.size_cumulative(n))
    SPACES[f"cumulative{_n}_dem02"] = (lambda i, n=_n: cplib.space_cumulative(i, n, None, (1, 2, 3), (0, 2)), lambda n=_n: cplib.size_cumulative(n))
SPACES["alldiff4_5"] = (cplib.space_alldiff4, cplib.size_alldiff4)
SPACES["alldiff_wide"] = (cplib.space_alldiff_wide, cplib.size_alldiff_wide)
SPACES["alldiff7_full_domains"] = (cplib.space_alldiff7_full, lambda: 4)
SPACES["cumulative5_unit"] = (cplib.space_cumulative5, cplib.size_cumulative5)
SPACES["cumulative_pair"] = (cplib.space_cumulative_pair, cplib.size_cumulative_pair)
SPACES["global_pair"] = (cplib.space_global_pair, cplib.size_global_pair)
SPACES["cumulative4_window03"] = (lambda i: cplib.space_cumulative(i, 4, (0, 3)), lambda: cplib.size_cumulative(4, (0, 3)))
SPACES["cumulative3_window05"] = (lambda i: cplib.space_cumulative(i, 3, (0, 5)), lambda: cplib.size_cumulative(3, (0, 5)))


# ----------------------------------------------------------------------- incremental use of one Model object
INC_A = [
    [("sum", "eq", (0, 1, 2), 3)],
    [("sum", "le", (0, 1, 2), 2)],
    [("sum", "ge", (0, 1, 2), 4)],
    [("circuit", (0, 1, 2))],
    [("cmp", "==", ("add", ("add", cplib.X, cplib.Y), cplib.Z), cplib.C(3))],
    [("cmp", "==", ("add", ("mul", 2, cplib.X), cplib.Y), cplib.Z)],
    [("cumulative", (0, 1, 2), (2, 1, 2), (1, 2, 1), 2)],
    [("alldiff", (0, 1, 2))],
]
W = ("v", 3)
INC_B = [
    [("cmp", "==", W, cplib.C(0))],
    [("cmp", "==", W, cplib.C(2))],
    [("cmp", "==", W, cplib.C(7))],
    [("cmp", "!=", W, cplib.X)],
    [("cmp", "==", ("add", W, cplib.X), cplib.C(3))],
    [("alldiff", (0, 3))],
    [("sum", "eq", (0, 3), 4)],
    [("sum", "le", (1, 2, 3), 3)],
]
INC_WDOM = ((0, 3), (0, 9), (2, 5))


def run_incremental(r, idx):
    """Model built and solved, then a variable and constraints are added and it is solved again.
    index = ((((a*|B| + b)*3 + wdom)*2 + s1)*3 + s2)*2 + lim"""
    from solvor.cp import Model
    from solvor.types import Status

    lim = (1, 10**6)[idx % 2]
    k = idx // 2
    s2 = ("auto", "dfs", "sat")[k % 3]
    k //= 3
    s1 = ("sat", "auto")[k % 2]
    k //= 2
    wd = INC_WDOM[k % 3]
    k //= 3
    cb = INC_B[k % len(INC_B)]
    ca = INC_A[k // len(INC_B)]
    doms1 = ((0, 2), (0, 2), (0, 2))
    m = Model()
    xs = [m.int_var(lo, hi, NAMES[i]) for i, (lo, hi) in enumerate(doms1)]
    for c in ca:
        cplib.add_to_model(m, c, xs)
    wit = {"first": [_jsonable(c) for c in ca], "second": [_jsonable(c) for c in cb], "w_domain": list(wd), "solver1": s1, "solver2": s2, "solution_limit": lim}
    txt = f"model x,y,z in 0..2 with {[cplib.show_con(c) for c in ca]} solved with {s1}; then u in {wd} and {[cplib.show_con(c) for c in cb]} added, solved with {s2}, solution_limit={lim}"
    r["n"] += 1
    try:
        r1 = gcall(lambda: m.solve(solver=s1), 5.0, 50_000_000)
        xs.append(m.int_var(wd[0], wd[1], NAMES[3]))
        for c in cb:
            cplib.add_to_model(m, c, xs)
        r2 = gcall(lambda: m.solve(solver=s2, solution_limit=lim), 5.0, 50_000_000)
    except Exception as ex:  # noqa: BLE001
        r["outcomes"]["incremental:raised"] += 1
        r["violations"].append(viol("Model.solve", "raised" if not isinstance(ex, SolverHang) else "nontermination", wit, f"{txt}: {type(ex).__name__}: {ex}"))
        return
    doms = doms1 + (wd,)
    cons = ca + cb
    sols = set(cplib.solutions(doms, cons))
    sols1 = set(cplib.solutions(doms1, ca))
    r["outcomes"][f"incremental:{r2.status.name}"] += 1
    if 0 < len(sols) < 27 * (wd[1] - wd[0] + 1):
        r["nontrivial"] += 1
    errs = []
    if r1.solution is not None and tuple(r1.solution.get(n) for n in NAMES[:3]) not in sols1:
        errs.append(("constraint_broken", f"first solve returned {r1.solution}"))
    if (r1.status == Status.INFEASIBLE) != (not sols1):
        errs.append(("wrong_infeasible", f"first solve status {r1.status.name}, {len(sols1)} solutions exist"))
    outs = ([("solution", r2.solution)] if r2.solution is not None else []) + [(f"solutions[{i}]", s_) for i, s_ in enumerate(r2.solutions or ())]
    for nm, s_ in outs:
        if set(s_) != set(NAMES[:4]):
            errs.append(("missing_variable", f"{nm} = {s_} after the second solve"))
        elif tuple(s_[n] for n in NAMES[:4]) not in sols:
            errs.append(("constraint_broken", f"{nm} = {s_} after the second solve breaks a constraint or a domain"))
    if r2.status == Status.INFEASIBLE and sols:
        a = sorted(sols)[0]
        errs.append(("wrong_infeasible", f"second solve INFEASIBLE but {dict(zip(NAMES[:4], a))} satisfies everything ({len(sols)} solutions)"))
    if r2.status == Status.OPTIMAL and r2.solution is None:
        errs.append(("no_solution_returned", "second solve OPTIMAL without a solution"))
    for kind, detail in errs:
        r["violations"].append(viol("Model.solve", kind, dict(wit, incremental=True), f"{txt}: {detail}"))
    if not r["samples"]:
        r["samples"].append(wit)


DEEP = [("free1500", 1500, 1, "none"), ("ne_on_first_30_of_1100_dom3", 1100, 2, "ne"), ("free1100_dom4_with_one_pair", 1100, 3, "pair")]


def _deep_chunk(params, lo, hi):
    """models with more decision variables than the interpreter's recursion limit has frames; satisfiability and the
    constraints are checked directly (every model is satisfiable by construction): index = model*3 + solver"""
    from solvor.cp import Model
    from solvor.types import Status

    r = new_result()
    for idx in range(lo, hi):
        name, n, ub, kind = DEEP[idx // 3]
        solver = ("dfs", "auto", "sat")[idx % 3]
        wit = {"deep": name, "solver": solver}
        m = Model()
        xs = [m.int_var(0, ub, f"x{i}") for i in range(n)]
        if kind == "ne":
            for a, b in zip(xs[:30], xs[1:30]):
                m.add(a != b)
        elif kind == "pair":
            m.add(xs[0] + xs[n - 1] == 6)
        r["n"] += 1
        r["nontrivial"] += 1
        try:
            res = gcall(lambda: m.solve(solver=solver), 120.0, 1_500_000_000)
        except Exception as ex:  # noqa: BLE001
            r["outcomes"]["deep:raised"] += 1
            r["violations"].append(viol("Model.solve", "raised" if not isinstance(ex, SolverHang) else "nontermination", wit, f"Model.solve(solver={solver!r}) on {name} ({n} variables): {type(ex).__name__}: {str(ex)[:120]}"))
            continue
        r["outcomes"][f"deep:{res.status.name}"] += 1
        msg = None
        if res.status != Status.OPTIMAL or res.solution is None:
            msg = f"status {res.status.name} although the model is satisfiable"
        else:
            v = [res.solution.get(f"x{i}") for i in range(n)]
            if any(x is None or not (0 <= x <= ub) for x in v):
                msg = "a variable is missing or outside its domain"
            elif kind == "ne" and any(a == b for a, b in zip(v[:30], v[1:30])):
                msg = "two neighbours of the chain are equal"
            elif kind == "pair" and v[0] + v[n - 1] != 6:
                msg = "x[0] + x[n-1] == 6 is broken"
        if msg:
            r["violations"].append(viol("Model.solve", "wrong_infeasible" if "status" in msg else "constraint_broken", wit, f"Model.solve(solver={solver!r}) on {name} ({n} variables): {msg}"))
    return r


def _medium_models():
    """(name, builder): models with 8-24 variables that are satisfiable by construction; builder(Model) returns
    (variables, checker) where checker(values) lists the constraints the assignment breaks"""

    def queens(n):
        def build(m):
            q = [m.int_var(0, n - 1, f"q{i}") for i in range(n)]
            m.add(m.all_different(q))
            for i in range(n):
                for j in range(i + 1, n):
                    m.add(q[i] + i != q[j] + j)
                    m.add(q[i] - i != q[j] - j)

            def chk(v):
                bad = []
                if len(set(v)) != n:
                    bad.append("all_different")
                bad += [f"diagonal {i},{j}" for i in range(n) for j in range(i + 1, n) if abs(v[i] - v[j]) == j - i]
                return bad

            return q, chk

        return build

    def long_sum(n, target, kind):
        def build(m):
            x = [m.int_var(0, 3, f"x{i}") for i in range(n)]
            m.add({"eq": m.sum_eq, "le": m.sum_le, "ge": m.sum_ge}[kind](x, target))
            m.add(x[0] == 3)
            m.add(x[n - 1] != x[0])

            def chk(v):
                s_ = sum(v)
                bad = [] if {"eq": s_ == target, "le": s_ <= target, "ge": s_ >= target}[kind] else [f"sum {s_} {kind} {target}"]
                if v[0] != 3:
                    bad.append("x0 == 3")
                if v[n - 1] == v[0]:
                    bad.append("x[n-1] != x0")
                return bad

            return x, chk

        return build

    def tour(n):
        def build(m):
            s_ = [m.int_var(0, n - 1, f"s{i}") for i in range(n)]
            m.add(m.circuit(s_))
            m.add(s_[0] == 3)

            def chk(v):
                seen, cur = set(), 0
                for _ in range(n):
                    seen.add(cur)
                    cur = v[cur]
                bad = [] if (len(seen) == n and cur == 0) else ["circuit"]
                return bad + ([] if v[0] == 3 else ["s0 == 3"])

            return s_, chk

        return build

    def machine(n, cap):
        durs = [1 + (i * 3) % 3 for i in range(n)]
        dems = [1 + i % 2 for i in range(n)]
        horizon = sum(durs)

        def build(m):
            st = [m.int_var(0, horizon, f"t{i}") for i in range(n)]
            if cap == 1:
                m.add(m.no_overlap(st, durs))
            else:
                m.add(m.cumulative(st, durs, dems, cap))

            def chk(v):
                bad = []
                for t in range(horizon + 4):
                    act = [i for i in range(n) if v[i] <= t < v[i] + durs[i]]
                    if (cap == 1 and len(act) > 1) or (cap > 1 and sum(dems[i] for i in act) > cap):
                        bad.append(f"overload at time {t}")
                        break
                return bad

            return st, chk

        return build

    def hidden_perm(n, a, b):
        perm = [(3 * i + 2) % n if n % 3 else (5 * i + 2) % n for i in range(n)]

        def build(m):
            x = [m.int_var(0, n - 1, f"x{i}") for i in range(n)]
            m.add(m.all_different(x))
            eqs = []
            for i in range(n):
                j, k = (i + 1) % n, (i + 3) % n
                c = a * perm[i] + b * perm[j] - perm[k]
                m.add(a * x[i] + b * x[j] == x[k] + c)
                eqs.append((i, j, k, c))

            def chk(v):
                bad = [] if len(set(v)) == n else ["all_different"]
                return bad + [f"{a}*x{i} + {b}*x{j} - x{k} == {c}" for i, j, k, c in eqs if a * v[i] + b * v[j] - v[k] != c]

            return x, chk

        return build

    def alldiff_then_equal(n):
        def build(m):
            x = [m.int_var(0, n - 1, f"x{i}") for i in range(n)]
            m.add(m.all_different(x))
            m.add(x[n - 1] == x[0])
            return x, None  # no assignment satisfies this model

        return build

    return [("hidden_permutation_8", hidden_perm(8, 1, 2)), ("hidden_permutation_10", hidden_perm(10, 2, 1)), ("hidden_permutation_11", hidden_perm(11, 1, 1)), ("alldiff8_last_equals_first", alldiff_then_equal(8)), ("alldiff9_last_equals_first", alldiff_then_equal(9)), ("queens8", queens(8)), ("queens10", queens(10)), ("sum_eq_12_terms", long_sum(12, 17, "eq")), ("sum_le_16_terms", long_sum(16, 9, "le")), ("sum_ge_24_terms", long_sum(24, 60, "ge")), ("circuit8", tour(8)), ("circuit12", tour(12)), ("no_overlap_8_tasks", machine(8, 1)), ("cumulative_8_tasks_cap3", machine(8, 3))]


def _medium_chunk(params, lo, hi):
    """index = model*3 + solver"""
    from solvor.cp import Model
    from solvor.types import Status

    models = _medium_models()
    r = new_result()
    for idx in range(lo, hi):
        name, build = models[idx // 3]
        solver = ("auto", "dfs", "sat")[idx % 3]
        wit = {"medium": name, "solver": solver}
        m = Model()
        xs, chk = build(m)
        r["n"] += 1
        r["nontrivial"] += 1
        try:
            res = gcall(lambda: m.solve(solver=solver), 120.0, 1_500_000_000)
        except Exception as ex:  # noqa: BLE001
            r["outcomes"]["medium:raised"] += 1
            r["violations"].append(viol("Model.solve", "raised" if not isinstance(ex, SolverHang) else "nontermination", wit, f"Model.solve(solver={solver!r}) on {name}: {type(ex).__name__}: {str(ex)[:120]}"))
            continue
        r["outcomes"][f"medium:{res.status.name}"] += 1
        if chk is None:  # infeasible by construction
            if res.status != Status.INFEASIBLE:
                r["violations"].append(viol("Model.solve", "constraint_broken", wit, f"Model.solve(solver={solver!r}) on {name}: status {res.status.name} with {res.solution} although no assignment satisfies the model"))
            continue
        if res.status != Status.OPTIMAL or res.solution is None:
            r["violations"].append(viol("Model.solve", "wrong_infeasible", wit, f"Model.solve(solver={solver!r}) on {name}: status {res.status.name} although the model is satisfiable by construction"))
            continue
        try:
            v = [res.solution[x.name] for x in xs]
            bad = [f"{x.name} outside its domain" for x, val in zip(xs, v) if not (x.lb <= val <= x.ub)] or chk(v)
        except Exception as ex:  # noqa: BLE001
            bad = [f"solution unreadable: {ex!r}"]
        if bad:
            r["violations"].append(viol("Model.solve", "constraint_broken", wit, f"Model.solve(solver={solver!r}) on {name}: solution {res.solution} breaks {bad[:3]}"))
        if not r["samples"]:
            r["samples"].append(wit)
    return r


N_INC = len(INC_A) * len(INC_B) * 3 * 2 * 3 * 2


def _inc_chunk(params, lo, hi):
    r = new_result()
    for idx in range(lo, hi):
        run_incremental(r, idx)
        if len(r["violations"]) >= 40 or too_many_hangs():
            r["capped"] = True
            break
    return r


def _chunk(params, lo, hi):
    name, full_mod, off = params
    decode = SPACES[name][0]
    r = new_result()
    for idx in range(lo, hi):
        doms, cons = decode(idx + off)
        run_model(r, doms, cons, full=((idx + off) % full_mod == 0))
        if len(r["violations"]) >= 40 or r["counters"]["hangs"] >= 2 or too_many_hangs():
            r["capped"] = True
            break
    return r


def plan(tier, seed):
    """[(space, full_mod, block)]: full_mod = every k-th model gets the complete configuration menu (limits, hints)."""
    q = tier == "quick"
    out = [
        ("cmp2", 4 if q else 1, None),
        ("cmp3", 8 if q else 2, None),
        ("pair", 16 if q else 4, (seed % 4, 4) if q else None),
        ("alldiff", 1, None),
        ("mixed", 2, None),
        ("sum1", 1, None),
        ("sum2", 1, None),
        ("sum3", 2, None),
        ("sum4", 4, None),
        ("sum5", 8, (seed % 4, 4) if q else None),
        ("circuit2", 1, None),
        ("circuit3", 1, None),
        ("circuit4", 4, None),
        ("circuit2_outside", 1, None),
        ("circuit3_outside", 2, None),
        ("no_overlap2", 1, None),
        ("no_overlap3", 4, None),
        ("cumulative1", 1, None),
        ("cumulative2", 2, None),
        ("cumulative3", 8, (seed % 4, 4) if q else None),
        ("alldiff4_5", 1, None),
        ("alldiff_wide", 16, None),
        ("alldiff7_full_domains", 1, None),
        ("cumulative5_unit", 8, None),
        ("cumulative_pair", 16, None),
        ("global_pair", 2, None),
        ("cumulative2_dur013", 2, None),
        ("cumulative2_dem02", 2, None),
        ("cumulative3_dur013", 8, (seed % 4, 4) if q else None),
        ("cumulative4_window03", 8, (seed % 4, 4) if q else None),
        ("cumulative3_window05", 8, (seed % 4, 4) if q else None),
    ]
    if not q:
        out += [("circuit5", 16, None), ("circuit4_outside", 16, None), ("cumulative4", 16, None)]
    return out


def jobs(tier, seed):
    js = []
    for name, full_mod, block in plan(tier, seed):
        size = SPACES[name][1]()
        lo, hi = 0, size
        label = name
        if block:
            b, nb = block
            lo, hi = size * b // nb, size * (b + 1) // nb
            label = f"{name}_block{b}of{nb}"
        js.append(Job(label, hi - lo, _chunk, (name, full_mod, lo), describe=f"model space '{name}' ({size} models); every {full_mod}-th model gets the full solver/limit/hint menu, the others solver x limit in {{1,10^6}}"))
    js.append(Job("medium_models", len(_medium_models()) * 3, _medium_chunk, None, chunk=1, describe="hidden permutations pinned by ternary equalities (8-11 variables), all_different plus x[n-1] == x[0] (infeasible), 8 and 10 queens, sums over 12-24 variables, circuits on 8 and 12 nodes, 8 tasks on a unary / capacity-3 resource: satisfiable by construction, the returned assignment is checked against the definitions; auto, dfs and sat"))
    js.append(Job("deep_models", len(DEEP) * 3, _deep_chunk, None, chunk=1, describe="1500 unconstrained 0/1 variables, 1100 variables over 0..2 with x[i] != x[i+1] on the first 30, 1100 variables over 0..3 with x[0] + x[1099] == 6: more decision levels than the interpreter's recursion limit; dfs, auto and sat"))
    js.append(Job("incremental_resolve", N_INC, _inc_chunk, None, describe="histories of one Model object: build, solve, add a variable and constraints, solve again (8 first parts x 8 second parts x 3 domains x solver pairs x limits)"))
    return js


def replay(v):
    w = v["witness"]
    if w.get("medium"):
        i = [mm[0] for mm in _medium_models()].index(w["medium"]) * 3 + ("auto", "dfs", "sat").index(w["solver"])
        r = _medium_chunk(None, i, i + 1)
        return r["violations"][0] if r["violations"] else None
    if w.get("deep"):
        i = [d[0] for d in DEEP].index(w["deep"]) * 3 + ("dfs", "auto", "sat").index(w["solver"])
        r = _deep_chunk(None, i, i + 1)
        return r["violations"][0] if r["violations"] else None
    if w.get("incremental"):
        r = new_result()
        for idx in range(N_INC):
            r = new_result()
            run_incremental(r, idx)
            for x in r["violations"]:
                if x["witness"] == w and x["kind"] == v["kind"]:
                    return x
        return None
    doms = tuple(tuple(d) for d in w["domains"])
    cons = [_tuplify(c) for c in w["constraints"]]
    sols = cplib.solutions(doms, cons)
    errs, _ = judge(doms, cons, w["solver"], w["solution_limit"], w["hints"], sols, set(sols))
    for kind, detail in errs or []:
        if kind == v["kind"]:
            return {"function": "Model.solve", "kind": kind, "detail": detail}
    if errs:
        return {"function": "Model.solve", "kind": errs[0][0], "detail": errs[0][1]}
    return None
