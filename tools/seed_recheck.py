#!/venv/bin/python
"""tools/seed_recheck.py <seed-id> <check> <tier> [--only SPACE]
Re-runs one check against a stored seeded change (scratch worktree, never /repo) and appends the outcome to
seeded/<seed-id>/meta.json."""
import json, os, subprocess, sys

V = os.path.dirname(os.path.dirname(os.path.abspath(__file__)))
sid, pid, tier = sys.argv[1:4]
only = sys.argv[5] if len(sys.argv) > 5 and sys.argv[4] == "--only" else None
d = os.path.join(V, "seeded", sid)
wt = f"/tmp/wtm/recheck_{sid}.{os.getpid()}"
os.makedirs("/tmp/wtm", exist_ok=True)
subprocess.check_call(["git", "-C", "/repo", "worktree", "add", "-q", "--detach", wt, "HEAD"])
try:
    subprocess.check_call(["git", "-C", wt, "apply", os.path.join(d, "patch.diff")])
    env = dict(os.environ, SOLVOR_REPO=wt, VERIF_SCRATCH_EVIDENCE=f"/var/tmp/solvor-verif/mut-evidence/{sid}")
    cmd = ["./check", pid, "--tier", tier] + (["--only", only] if only else [])
    p = subprocess.run(cmd, cwd=V, env=env, capture_output=True, text=True, timeout=6 * 3600)
    lines = p.stdout.splitlines()
    first = ""
    for i, l in enumerate(lines):
        if l.startswith("VIOLATION") and i > 0:
            first = lines[i - 1][:300]
            break
    meta = json.load(open(os.path.join(d, "meta.json")))
    meta.setdefault("checks", []).append({"check": pid, "tier": tier + (f" (only {only})" if only else ""), "exit": p.returncode, "first_violation": first})
    json.dump(meta, open(os.path.join(d, "meta.json"), "w"), indent=1)
    print(sid, pid, tier, "exit", p.returncode, first[:160])
finally:
    subprocess.call(["git", "-C", "/repo", "worktree", "remove", "--force", wt])
