"""C02 - SAT verdicts are correct and the solver always returns (engine E1 + fuel + analyze tap)."""

from checks import satlib

LEVEL = "exploration"
RULE = (
    "E1: same spaces and configuration menu as C01; oracle = truth table of formula AND assumptions. INFEASIBLE only "
    "if no model; no model/OPTIMAL for an unsatisfiable input; a model whenever one exists unless MAX_ITER; MAX_ITER "
    "only when the tap saw enough analysed conflicts to exhaust max_conflicts or max_restarts; every clause returned "
    "by the nested analyze() (sys.monitoring PY_RETURN tap) must be satisfied by every model of the input that was "
    "not returned (blocked); termination by SIGALRM then deterministic fuel (JUMP/BRANCH event budget). A case is "
    "non-trivial when a clause was learned, the status is not OPTIMAL, or several models were returned."
)
ASSUMPTIONS = [
    "bounds as C01",
    "fuel = JUMP-event budget: 2e7 for the micro spaces (their cases use < 1e4), 3e8 for the structured family, 1.5e9 for the enumeration family (largest legitimate use measured: 2e7)",
    "tap names the nested function analyze(); if it cannot attach the black-box verdict checks still run and evidence "
    "reports tap_not_attached",
]


def jobs(tier, seed):
    return satlib.make_jobs("C02", tier, seed)


def replay(v):
    return satlib.replay("C02", v)
