"""C19 - search heuristics return the best point they evaluated, faithfully, reproducibly (engine E2).

Stateless exploration of the choice tree: every answer of the solver's random generator (ScriptedRandom) and every
answer of the user's objective function (OracleFn: each not-yet-seen point gets every value of a small alphabet, a
seen point its memoised value) is enumerated for one small driver per solver."""

from __future__ import annotations

import importlib
import json
import os
import subprocess
import sys

from vf import e2
from vf.core import Job, new_result, viol
from vf.guard import SolverHang
from vf.guard import call as gcall

LEVEL = "model_checking"
RULE = (
    "E2: one driver per solver (anneal, tabu_search, lns, alns, evolve, differential_evolution, particle_swarm, "
    "nelder_mead, bayesian_opt; bfgs/lbfgs with oracle objective and gradient); a state of the explored transition "
    "system is a prefix of answers (a node of the choice tree, counted once), a transition one answer; every complete execution (trace) is judged: the returned "
    "point was evaluated, objective = memoised answer there in the user's sign, no evaluated point is better, "
    "evaluations = number of objective calls, bounded solvers stay in bounds; each trace is replayed under the mirrored "
    "problem (minimize flipped, answers negated) and must give the same point, the negated objective and the same "
    "number of choice points; a slice of traces is replayed twice for determinism. powell/bfgs/lbfgs on a finite family "
    "of deterministic functions (plateaus, kinks, steps): objective = f(returned point). Real seeds 0..3 run twice and "
    "once in a subprocess with another PYTHONHASHSEED. Non-trivial trace = at least two different objective answers "
    "were given."
)
ASSUMPTIONS = [
    "objective alphabet {0,1,2} (or {0,1}); random() in {0,.25,.5,.75,1-2^-53}; uniform() in {lo,mid,hi}; horizons: 1-3 iterations",
    "drivers whose full tree is too large are explored up to a stated number of deviations from the default answer "
    "(evidence lists them as capped=false only if that bounded tree was exhausted)",
    "determinism of the user's callbacks is part of the property (memoised oracle)",
]

V3 = (0.0, 1.0, 2.0)
V2 = (0.0, 1.0)
V4 = (0.0, 1.0, 2.0, 3.0)
# objective values that are exact Python integers but not doubles (integer nano-units, big-M offsets): the solver must hand
# the user's own number back, and must not merge distinct values
VBIG = (2**60, 2**60 + 1, 2**60 + 2)


def keyof(x):
    if isinstance(x, (list, tuple)):
        return tuple(keyof(v) for v in x)
    return x


class OracleFn:
    def __init__(self, values, negate=False, label="f"):
        self.values = values
        self.neg = negate
        self.memo = {}
        self.calls = 0
        self.label = label

    def __call__(self, x):
        self.calls += 1
        k = keyof(x)
        if k not in self.memo:
            v = self.values[e2.current().choose(len(self.values), self.label)]
            self.memo[k] = -v if self.neg else v
        return self.memo[k]


def mod(name):
    return importlib.import_module("solvor." + name)


class Patched:
    """ScriptedRandom replaces Random in the given solvor modules for the duration of a driver run."""

    def __init__(self, *names):
        self.mods = [mod(n) for n in names]

    def __enter__(self):
        self.saved = [m.Random for m in self.mods]
        for m in self.mods:
            m.Random = e2.ScriptedRandom

    def __exit__(self, *a):
        for m, s in zip(self.mods, self.saved):
            m.Random = s


def stopper(k):
    if not k:
        return {}
    return {"on_progress": (lambda p: p.iteration >= k), "progress_interval": 1}


# ---------------------------------------------------------------------------------------------- drivers
# each driver: fn(minimize, neg, cfg) -> (result, oracle, bounds or None); called with a Script installed


def d_anneal(minimize, neg, cfg):
    m = mod("anneal")
    f = OracleFn(cfg.get("values", V3), neg)
    cool = {"exp": 0.9995, "lin": m.linear_cooling(), "log": m.logarithmic_cooling()}[cfg["cooling"]]

    def nb(x):
        return x + (-1, 1)[e2.current().choose(2, "neighbor")]

    with Patched("anneal"):
        res = m.anneal(cfg.get("start", 0), f, nb, minimize=minimize, temperature=1.0, cooling=cool, max_iter=cfg["max_iter"], seed=1, **stopper(cfg.get("stop")))
    return res, f, None


def d_tabu(minimize, neg, cfg):
    m = mod("tabu")
    f = OracleFn(cfg.get("values", V3), neg)
    nm = cfg["moves"]

    def nbs(s):
        out = [("inc", (s + 1) % 4), ("dec", (s + 3) % 4)]
        if nm == 3:
            out.append(("jmp", (s + 2) % 4))
        return out

    with Patched("tabu"):
        res = m.tabu_search(cfg.get("start", 0), f, nbs, minimize=minimize, cooldown=cfg["cooldown"], max_iter=cfg["max_iter"], seed=1, **stopper(cfg.get("stop")))
    return res, f, None


def d_lns(minimize, neg, cfg):
    m = mod("lns")
    f = OracleFn(cfg.get("values", V3), neg)

    def destroy(s, rng):
        return ("partial", s)

    def repair(p, rng):
        return (0, 1, 2)[e2.current().choose(3, "repair")]

    with Patched("lns"):
        res = m.lns(cfg.get("start", 0), f, destroy, repair, minimize=minimize, accept=cfg["accept"], start_temp=1.0, cooling_rate=cfg.get("cooling_rate", 0.9995), max_iter=cfg["max_iter"], seed=1, **stopper(cfg.get("stop")))
    return res, f, None


# weight lists handed to alns as the caller's own objects: reset before a primary execution, deliberately NOT before
# the replays that follow it (mirror image, determinism) - a second call with the same arguments must repeat the first
ALNS_W = {"d": [1.0, 1.0], "r": [1.0, 1.0], "fresh": True}


def d_alns(minimize, neg, cfg):
    m = mod("lns")
    f = OracleFn(cfg.get("values", V3), neg)
    d_ops = [lambda s, r: ("a", s), lambda s, r: ("b", s)]
    r_ops = [lambda p, r: (p[1] + 1) % 3, lambda p, r: (p[1] + 2) % 3]
    extra = {}
    if cfg.get("weights"):
        if minimize and not neg and not e2.current().prefix_is_replay:
            ALNS_W["d"][:] = [1.0, 1.0]
            ALNS_W["r"][:] = [1.0, 1.0]
        extra = {"destroy_weights": ALNS_W["d"], "repair_weights": ALNS_W["r"]}
    with Patched("lns"):
        res = m.alns(cfg.get("start", 0), f, d_ops, r_ops, minimize=minimize, accept=cfg["accept"], start_temp=1.0, cooling_rate=cfg.get("cooling_rate", 0.9995), segment_size=cfg.get("segment", 1), max_iter=cfg["max_iter"], seed=1, **extra, **stopper(cfg.get("stop")))
    return res, f, None


def d_evolve(minimize, neg, cfg):
    m = mod("genetic")
    f = OracleFn(cfg.get("values", V3), neg)
    with Patched("genetic"):
        res = m.evolve(f, [0, 1, 2], lambda a, b: (a + b) % 4, lambda c: (c + 1) % 4, minimize=minimize, elite_size=cfg.get("elite", 1), mutation_rate=0.5, adaptive_mutation=cfg["adaptive"], max_iter=cfg["max_iter"], tournament_k=cfg["k"], seed=1, **stopper(cfg.get("stop")))
    return res, f, None


def d_de(minimize, neg, cfg):
    m = mod("differential_evolution")
    f = OracleFn(cfg.get("values", V2), neg)
    bounds = [(0.0, 4.0)]
    with Patched("differential_evolution"):
        extra = {"mutation": cfg["mutation"]} if "mutation" in cfg else {}
        res = m.differential_evolution(f, bounds, minimize=minimize, population_size=cfg.get("pop", 4), strategy=cfg["strategy"], max_iter=cfg["max_iter"], seed=1, initial_population=cfg.get("init"), **extra, **stopper(cfg.get("stop")))
    return res, f, bounds


def d_pso(minimize, neg, cfg):
    m = mod("particle_swarm")
    f = OracleFn(cfg.get("values", V2), neg)
    bounds = [(0.0, 4.0)]
    with Patched("particle_swarm"):
        res = m.particle_swarm(f, bounds, minimize=minimize, n_particles=2, max_iter=cfg["max_iter"], seed=1, initial_positions=cfg.get("init"), **stopper(cfg.get("stop")))
    return res, f, bounds


def d_nm(minimize, neg, cfg):
    m = mod("nelder_mead")
    f = OracleFn(cfg.get("values", V3), neg)
    res = m.nelder_mead(f, cfg["x0"], minimize=minimize, max_iter=cfg["max_iter"], adaptive=cfg["adaptive"], initial_step=1.0, **stopper(cfg.get("stop")))
    return res, f, None


def d_bayes(minimize, neg, cfg):
    m = mod("bayesian")
    f = OracleFn(V3, neg)
    bounds = [(0.0, 2.0)]
    with Patched("bayesian"):
        res = m.bayesian_opt(f, bounds, minimize=minimize, max_iter=cfg["max_iter"], n_initial=2, acquisition=cfg["acq"], acq_restarts=1, seed=1, **stopper(cfg.get("stop")))
    return res, f, bounds


def d_bfgs(minimize, neg, cfg):
    m = mod("bfgs")
    f = OracleFn((-1.0, 0.0, 1.0), neg)
    g = OracleFn((-1.0, 0.0, 1.0), neg, "grad")
    fn = m.bfgs if cfg["which"] == "bfgs" else m.lbfgs
    res = fn(lambda x: [g(x)], [0.0], minimize=minimize, objective_fn=f, max_iter=cfg["max_iter"], **stopper(cfg.get("stop")))
    return res, f, None


DRIVERS = {
    # start=1: the falsy solution 0 is then a candidate the search can move to, not the point it starts from
    "anneal": (d_anneal, [dict(cooling=c, max_iter=3, stop=s) for c in ("exp", "lin", "log") for s in (0, 1, 2)] + [dict(cooling=c, max_iter=3, stop=0, start=1) for c in ("exp", "lin")] + [dict(cooling="exp", max_iter=3, stop=0, values=VBIG)], None),
    "tabu_search": (d_tabu, [dict(moves=mv, cooldown=cd, max_iter=3, stop=s) for mv in (2, 3) for cd in (1, 2) for s in (0, 1, 2)] + [dict(moves=mv, cooldown=cd, max_iter=3, stop=0, start=1) for mv in (2, 3) for cd in (1, 2)] + [dict(moves=2, cooldown=1, max_iter=3, stop=0, values=VBIG)], None),
    "lns": (d_lns, [dict(accept=a, max_iter=3 if a != "simulated_annealing" else 2, stop=s) for a in ("improving", "accept_all", "simulated_annealing") for s in (0, 1, 2)] + [dict(accept="simulated_annealing", cooling_rate=1e-6, max_iter=3, stop=0)] + [dict(accept=a, max_iter=2, stop=0, start=1) for a in ("improving", "accept_all")] + [dict(accept="improving", max_iter=3, stop=0, values=VBIG)], None),  # before the big-integer one: temperature frozen (< 1e-10) from the third iteration on
    "alns": (d_alns, [dict(accept="improving", max_iter=2, segment=sg, stop=s) for sg in (1, 2) for s in (0, 1)] + [dict(accept="simulated_annealing", max_iter=2, segment=1, stop=0, max_dev=3), dict(accept="accept_all", max_iter=3, segment=2, stop=0, max_dev=3), dict(accept="accept_all", max_iter=3, segment=2, stop=2, max_dev=3), dict(accept="accept_all", max_iter=2, segment=1, stop=1), dict(accept="simulated_annealing", max_iter=3, segment=1, stop=2, max_dev=3), dict(accept="simulated_annealing", cooling_rate=1e-6, max_iter=3, segment=1, stop=0, max_dev=3), dict(accept="improving", max_iter=2, segment=1, stop=0, start=1), dict(accept="accept_all", max_iter=3, segment=1, stop=0, weights=True, max_dev=3), dict(accept="improving", max_iter=2, segment=1, stop=0, values=VBIG)], None),
    "evolve": (
        d_evolve,
        [dict(adaptive=ad, k=1, max_iter=1, stop=0, elite=1) for ad in (False, True)]
        + [dict(adaptive=False, k=1, max_iter=1, stop=0, elite=1, values=VBIG)]
        + [dict(adaptive=ad, k=1, max_iter=1, stop=0, elite=0, max_dev=4) for ad in (False, True)]
        + [dict(adaptive=ad, k=2, max_iter=2, stop=s, max_dev=3) for ad in (False, True) for s in (0, 1)]
        + [dict(adaptive=False, k=1, max_iter=2, stop=0, elite=0, max_dev=3), dict(adaptive=False, k=2, max_iter=3, stop=0, elite=0, max_dev=2)],
        None,
    ),
    "differential_evolution": (
        d_de,
        [dict(strategy=st, max_iter=1, init=[[0.0], [1.0], [2.0], [3.0]], stop=0) for st in ("rand/1", "best/1")]
        + [dict(strategy="best/1", max_iter=1, init=[[0.0], [1.0], [2.0], [3.0]], stop=0, values=VBIG[:2])]
        + [dict(strategy="rand/1", max_iter=1, init=[[-1.0], [1.0], [5.0], [3.0]], stop=0), dict(strategy="best/1", max_iter=2, init=[[0.0], [1.0], [2.0], [3.0]], stop=1, values=V3, max_dev=3), dict(strategy="rand/1", max_iter=2, init=None, stop=0, values=V3, max_dev=3)]
        # steps longer than the box is wide (mutation factor > 1, two difference vectors): the mutant overshoots by more than one box width
        + [dict(strategy=st, mutation=2.0, max_iter=1, init=[[0.0], [1.0], [2.0], [3.0]], stop=0) for st in ("rand/1", "best/1")]
        + [dict(strategy="best/2", pop=5, max_iter=1, init=[[0.0], [1.0], [2.0], [3.0], [4.0]], stop=0, max_dev=3), dict(strategy="rand/2", pop=6, mutation=1.5, max_iter=1, init=[[0.0], [1.0], [2.0], [3.0], [4.0], [0.5]], stop=0, max_dev=2)],
        None,
    ),
    "particle_swarm": (d_pso, [dict(max_iter=1, init=[[1.0], [3.0]], stop=0), dict(max_iter=1, init=[[1.0], [3.0]], stop=0, values=VBIG[:2]), dict(max_iter=1, init=[[0.0], [4.0]], stop=0), dict(max_iter=2, init=[[1.0], [3.0]], stop=1, values=V3, max_dev=3), dict(max_iter=2, init=None, stop=0, values=V3, max_dev=3)], None),
    "nelder_mead": (d_nm, [dict(x0=[0.0], max_iter=2, adaptive=False, stop=0, values=VBIG)] + [dict(x0=[0.0], max_iter=mi, adaptive=False, stop=s) for mi in (1, 2, 3) for s in (0, 1, 2)] + [dict(x0=[0.0], max_iter=mi, adaptive=False, stop=0, values=V4) for mi in (1, 2)] + [dict(x0=[0.0, 0.0], max_iter=1, adaptive=False, stop=0, values=V4)] + [dict(x0=[0.0, 0.0], max_iter=2, adaptive=ad, stop=s) for ad in (False, True) for s in (0, 1)] + [dict(x0=[0.0, 0.0], max_iter=4, adaptive=False, stop=0, max_dev=5)], None),  # last: room for two shrink steps
    "bayesian_opt": (d_bayes, [dict(acq=a, max_iter=3, stop=0) for a in ("ei", "ucb")] + [dict(acq="ei", max_iter=4, stop=s, max_dev=2) for s in (0, 3)], None),
    "bfgs": (d_bfgs, [dict(which=w, max_iter=2, stop=s, max_dev=2) for w in ("bfgs", "lbfgs") for s in (0, 1)], "point_only"),
}


def judge(res, f, bounds, minimize, mode):
    errs = []
    k = keyof(res.solution)
    if k not in f.memo:
        errs.append(("solution_never_evaluated", f"returned point {res.solution} was never passed to the objective"))
        return errs
    if res.objective != f.memo[k]:
        errs.append(("objective_not_f_of_solution", f"objective {res.objective} but f({res.solution}) = {f.memo[k]}"))
    if mode != "point_only":
        best = min(f.memo.values()) if minimize else max(f.memo.values())
        if (res.objective > best) if minimize else (res.objective < best):
            where = [p for p, v in f.memo.items() if v == best][0]
            errs.append(("not_best_evaluated", f"objective {res.objective} at {res.solution}, but the solver evaluated {where} with value {best}"))
        if res.evaluations != f.calls:
            errs.append(("evaluations_miscounted", f"evaluations={res.evaluations}, objective was called {f.calls} times"))
    if bounds is not None:
        for x, (lo, hi) in zip(res.solution, bounds):
            if not (lo <= x <= hi):
                errs.append(("out_of_bounds", f"returned point {res.solution} outside {bounds}"))
                break
    return errs


THOROUGH = [False]


def run_driver(r, name, cfg_index, max_execs=None):
    driver, cfgs, mode = DRIVERS[name]
    cfg = cfgs[cfg_index]
    max_dev = cfg.get("max_dev")
    if THOROUGH[0]:
        # thorough: one more deviation where the tree is deviation-bounded, ten times the execution cap
        max_dev = None if max_dev is None else max_dev + 1
    if max_execs is None:
        max_execs = 4_000_000 if THOROUGH[0] else 400_000

    def execute(minimize, neg):
        def run(script):
            try:
                return gcall(lambda: driver(minimize, neg, cfg), 10.0, 50_000_000), None
            except SolverHang:
                return None, "nontermination"
            except e2.ReplayDivergence as ex:
                return None, f"divergence {ex}"
            except Exception as ex:  # noqa: BLE001
                return None, f"raised {type(ex).__name__}: {ex}"

        return run

    seen_prefixes = 0
    count = 0
    for script, (out, err) in e2.explore(execute(True, False), max_dev=max_dev, max_execs=max_execs, stats=r):
        count += 1
        r["n"] += 1
        r["counters"]["traces"] += 1
        new_nodes = len(script.choices) - len(script.prefix) + 1  # nodes of the choice tree first reached by this execution
        r["counters"]["states"] += new_nodes
        r["counters"]["transitions"] += new_nodes if script.prefix else new_nodes - 1
        wit = {"solver": name, "config": {k: v for k, v in cfg.items()}, "minimize": True, "choices": list(script.choices)}
        if err:
            r["outcomes"][f"{name}:{err.split()[0]}"] += 1
            r["violations"].append(viol(name, err.split()[0].rstrip(":"), wit, f"{name}{cfg} with answers {script.choices}: {err}"))
            continue
        res, f, bounds = out
        if len(set(f.memo.values())) > 1:
            r["nontrivial"] += 1
        r["outcomes"][f"{name}:{res.status.name}"] += 1
        for kind, detail in judge(res, f, bounds, True, mode):
            r["violations"].append(viol(name, kind, wit, f"{name}{cfg} minimize=True, answers {script.choices}: {detail}"))
        if mode == "point_only":
            continue  # the mirror-image clause of the statement covers the first group of solvers only
        # mirror: maximise the negated function with the same answers
        s2, (out2, err2) = e2.replay(execute(False, True), script.choices)
        witm = dict(wit, minimize=False)
        if err2:
            r["violations"].append(viol(name, "mirror_" + err2.split()[0].rstrip(":"), witm, f"{name}{cfg} minimize=False on -f, answers {script.choices}: {err2}"))
        else:
            res2, f2, _ = out2
            for kind, detail in judge(res2, f2, bounds, False, mode):
                r["violations"].append(viol(name, kind, witm, f"{name}{cfg} minimize=False on -f, answers {script.choices}: {detail}"))
            if keyof(res2.solution) != keyof(res.solution) or res2.objective != -res.objective or len(s2.choices) != len(script.choices) or res2.evaluations != res.evaluations:
                r["violations"].append(
                    viol(name, "not_mirror_image", witm, f"{name}{cfg} answers {script.choices}: minimising f gives {res.solution} / {res.objective} ({len(script.choices)} choice points), maximising -f gives {res2.solution} / {res2.objective} ({len(s2.choices)} choice points)")
                )
        if count % 97 == 1:
            s3, (out3, err3) = e2.replay(execute(True, False), script.choices)
            same = (err3 is None) and keyof(out3[0].solution) == keyof(res.solution) and out3[0].objective == res.objective and s3.menus == script.menus
            r["counters"]["replayed_twice"] += 1
            if not same:
                r["violations"].append(viol(name, "not_reproducible", wit, f"{name}{cfg}: replaying answers {script.choices} gave a different run"))
        if len(r["violations"]) >= 30:
            r["capped"] = True
            break
    if not r["samples"]:
        r["samples"].append({"solver": name, "config": cfg, "executions": count})


def _driver_chunk(params, lo, hi):
    name = params
    r = new_result()
    for idx in range(lo, hi):
        run_driver(r, name, idx)
    return r


# --------------------------------------------------------------------------- deterministic function family


def fn_family():
    import math

    fs = {
        "quad": lambda x: sum((v - 1.5) ** 2 for v in x),
        "abs": lambda x: sum(abs(v - 0.7) for v in x),
        "plateau": lambda x: float(sum(math.floor(v) for v in x)),
        "step": lambda x: 0.0 if x[0] < 0.3 else 1.0 + 0.1 * x[0],
        "const": lambda x: 3.0,
        "linear": lambda x: 2.0 * x[0] - (x[1] if len(x) > 1 else 0.0),
        "kink": lambda x: max(x[0], -2 * x[0]) + (abs(x[1]) if len(x) > 1 else 0.0),
        "saw": lambda x: (x[0] % 1.0) + 0.5 * abs(x[0]),
    }
    return fs


def _fn_chunk(params, lo, hi):
    pw = mod("powell")
    bf = mod("bfgs")
    fs = fn_family()
    names = sorted(fs)
    starts = [[0.0], [2.0], [-1.3], [0.0, 0.0], [1.0, -2.0]]
    cases = []
    for fn in names:
        for x0 in starts:
            for minimize in (True, False):
                for mi in (1, 2, 5):
                    for bounds in (None, "box", "pinned"):
                        cases.append((fn, x0, minimize, mi, bounds))
    r = new_result()
    for idx in range(lo, min(hi, len(cases))):
        fn, x0, minimize, mi, bounds = cases[idx]
        f = fs[fn]
        calls = {}

        def obj(x, f=f, calls=calls):
            v = f(list(x))
            calls[tuple(x)] = v
            return v

        if bounds == "pinned":  # last coordinate fixed by its bounds (lo == hi), the others boxed
            b = [(-2.0, 3.0)] * (len(x0) - 1) + [(1.0, 1.0)]
        else:
            b = [(-2.0, 3.0)] * len(x0) if bounds else None
        wit = {"function": fn, "x0": x0, "minimize": minimize, "max_iter": mi, "bounds": b}
        runs = [("powell", lambda: pw.powell(obj, x0, minimize=minimize, bounds=b, max_iter=mi))]
        if not bounds:
            h = 1e-6

            def grad(x, f=f):
                return [(f([v + (h if i == j else 0.0) for j, v in enumerate(x)]) - f([v - (h if i == j else 0.0) for j, v in enumerate(x)])) / (2 * h) for i in range(len(x))]

            runs.append(("bfgs", lambda: bf.bfgs(grad, x0, minimize=minimize, objective_fn=obj, max_iter=mi)))
            runs.append(("lbfgs", lambda: bf.lbfgs(grad, x0, minimize=minimize, objective_fn=obj, max_iter=mi)))
        for sname, call in runs:
            r["n"] += 1
            r["nontrivial"] += 1
            r["counters"]["traces"] += 1
            try:
                res = gcall(call, 10.0, 100_000_000)
            except Exception as ex:  # noqa: BLE001
                r["outcomes"][f"{sname}:raised"] += 1
                r["violations"].append(viol(sname, "raised" if not isinstance(ex, SolverHang) else "nontermination", wit, f"{sname}({wit}): {type(ex).__name__}: {ex}"))
                continue
            r["outcomes"][f"{sname}:{res.status.name}"] += 1
            want = f(list(res.solution))
            if res.objective != want and not (res.objective != res.objective and want != want):
                r["violations"].append(viol(sname, "objective_not_f_of_solution", wit, f"{sname}({wit}): objective {res.objective!r} but f({res.solution}) = {want!r}"))
            if b and any(not (lo_ <= v <= hi_) for v, (lo_, hi_) in zip(res.solution, b)):
                r["violations"].append(viol(sname, "out_of_bounds", wit, f"{sname}({wit}): returned {res.solution} outside {b}"))
        if not r["samples"]:
            r["samples"].append(wit)
    r["counters"]["states"] += r["n"]
    r["counters"]["transitions"] += r["n"]
    return r


N_FN_CASES = 8 * 5 * 2 * 3 * 3

# ------------------------------------------------------------------------------------------ real seeds

SEED_SCRIPT = r"""
import json, sys
sys.path.insert(0, sys.argv[1])
import solvor
from solvor.anneal import anneal
from solvor.tabu import tabu_search
from solvor.lns import lns, alns
from solvor.genetic import evolve
from solvor.differential_evolution import differential_evolution
from solvor.particle_swarm import particle_swarm
from solvor.bayesian import bayesian_opt
from random import Random
out = {}
fs = {'sphere': lambda x: sum(v*v for v in x), 'plateau': lambda x: float(sum(int(v) for v in x)), 'ripple': lambda x: sum(abs(v) + (v % 0.5) for v in x)}
for seed in (0, 1, 2, 3):
    for fname, f in fs.items():
        k = f'{seed}:{fname}'
        nb_rng = Random(seed)
        def nb(x, nb_rng=nb_rng):
            return [v + nb_rng.choice((-0.5, 0.5)) for v in x]
        r = anneal([2.0, -1.0], f, nb, temperature=2.0, max_iter=60, seed=seed); out[k + ':anneal'] = [list(r.solution), r.objective, r.evaluations]
        r = tabu_search(3, lambda s: f([s / 2.0]), lambda s: [('u', s + 1), ('d', s - 1)], cooldown=2, max_iter=15, seed=seed); out[k + ':tabu'] = [r.solution, r.objective, r.evaluations]
        r = lns([2.0, 2.0], f, lambda s, g: s, lambda s, g: [v + g.choice((-0.5, 0, 0.5)) for v in s], max_iter=30, seed=seed); out[k + ':lns'] = [list(r.solution), r.objective, r.evaluations]
        r = alns([2.0, 2.0], f, [lambda s, g: s, lambda s, g: [v * 0.5 for v in s]], [lambda s, g: [v + g.choice((-0.5, 0.5)) for v in s], lambda s, g: s], max_iter=30, seed=seed); out[k + ':alns'] = [list(r.solution), r.objective, r.evaluations]
        r = evolve(f, [[1.0, 1.0], [2.0, -2.0], [0.5, 3.0], [-1.0, 0.0]], lambda a, b: [(u + v) / 2 for u, v in zip(a, b)], lambda c: [v + 0.25 for v in c], max_iter=8, seed=seed); out[k + ':evolve'] = [list(r.solution), r.objective, r.evaluations]
        r = differential_evolution(f, [(-2, 2), (-2, 2)], population_size=5, max_iter=6, seed=seed); out[k + ':de'] = [list(r.solution), r.objective, r.evaluations]
        r = particle_swarm(f, [(-2, 2), (-2, 2)], n_particles=4, max_iter=6, seed=seed); out[k + ':pso'] = [list(r.solution), r.objective, r.evaluations]
        r = bayesian_opt(f, [(-2, 2)], max_iter=6, n_initial=3, acq_restarts=2, seed=seed); out[k + ':bayes'] = [list(r.solution), r.objective, r.evaluations]
print(json.dumps(out, sort_keys=True))
"""


def _seed_chunk(params, lo, hi):
    from vf.core import REPO

    r = new_result()
    outs = []
    for hs in ("0", "0", "12345"):
        env = dict(os.environ, PYTHONHASHSEED=hs)
        p = subprocess.run([sys.executable, "-B", "-c", SEED_SCRIPT, os.environ.get("SOLVOR_OVERLAY") or REPO], capture_output=True, text=True, env=env, timeout=600)
        if p.returncode != 0:
            r["n"] += 1
            r["violations"].append(viol("seeded_runs", "raised", {"hashseed": hs}, f"seeded runs failed: {p.stderr[-400:]}"))
            return r
        outs.append(json.loads(p.stdout))
    base = outs[0]
    for k in sorted(base):
        r["n"] += 1
        r["nontrivial"] += 1
        r["counters"]["traces"] += 1
        r["outcomes"]["seeded:" + k.split(":")[2]] += 1
        for i, o in enumerate(outs[1:], start=1):
            if o.get(k) != base[k]:
                r["violations"].append(viol(k.split(":")[2], "seed_not_reproducible", {"case": k, "run": i}, f"{k}: run 0 gave {base[k]}, run {i} ({'same process settings' if i == 1 else 'PYTHONHASHSEED=12345'}) gave {o.get(k)}"))
    r["samples"].append({"seeded_case": sorted(base)[0], "result": base[sorted(base)[0]]})
    r["counters"]["states"] += r["n"]
    r["counters"]["transitions"] += r["n"]
    return r


def jobs(tier, seed):
    js = []
    THOROUGH[0] = tier == "thorough"
    for name, (drv, cfgs, mode) in DRIVERS.items():
        js.append(Job(f"{name}_choice_tree", len(cfgs), _driver_chunk, name, chunk=1, describe=f"{len(cfgs)} configurations of the {name} driver; complete choice tree per configuration (or up to max_dev deviations where the config says so)"))
    js.append(Job("powell_bfgs_function_family", N_FN_CASES, _fn_chunk, None, chunk=16, describe="powell / bfgs / lbfgs on 8 deterministic functions x 5 starts x min/max x max_iter {1,2,5} x bounds"))
    js.append(Job("real_seeds", 1, _seed_chunk, None, chunk=1, describe="seeds 0..3 x 3 objectives x 8 solvers, run twice plus once under another PYTHONHASHSEED, in subprocesses"))
    return js


def replay(v):
    w = v["witness"]
    name = w.get("solver")
    if not name:
        return None
    driver, cfgs, mode = DRIVERS[name]
    cfg = w["config"]
    minimize = w["minimize"]

    def run(script):
        return driver(minimize, not minimize, cfg)

    s, (res, f, bounds) = e2.replay(run, w["choices"])
    errs = judge(res, f, bounds, minimize, mode)
    if errs:
        return {"function": name, "kind": errs[0][0], "detail": errs[0][1]}
    return None
