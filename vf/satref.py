"""Reference SAT procedures (oracles). Deliberately boring: truth tables and a recursive DPLL."""

from __future__ import annotations

import sys


def variables(clauses, extra=()):
    vs = set()
    for c in clauses:
        for l in c:
            vs.add(abs(l))
    for l in extra:
        vs.add(abs(l))
    return sorted(vs)


def all_models(clauses, vs):
    """All total assignments over `vs` (list of variable ids) satisfying every clause, as dicts."""
    n = len(vs)
    if n > 20:
        raise ValueError("truth table too large")
    pos = {v: i for i, v in enumerate(vs)}
    # each clause -> (mask of vars that satisfy when true, mask when false)
    enc = []
    for c in clauses:
        pt = nf = 0
        for l in c:
            if l > 0:
                pt |= 1 << pos[l]
            else:
                nf |= 1 << pos[-l]
        enc.append((pt, nf))
    full = (1 << n) - 1
    out = []
    for a in range(1 << n):
        na = ~a & full
        ok = True
        for pt, nf in enc:
            if not (a & pt or na & nf):
                ok = False
                break
        if ok:
            out.append(a)
    return out, pos


def model_dicts(clauses, vs):
    ms, pos = all_models(clauses, vs)
    return [{v: bool(a >> pos[v] & 1) for v in vs} for a in ms]


def satisfies(assign: dict, clauses) -> int:
    """index of first clause not satisfied by the (total or partial) assignment, or -1"""
    for i, c in enumerate(clauses):
        ok = False
        for l in c:
            val = assign.get(abs(l))
            if val is not None and val == (l > 0):
                ok = True
                break
        if not ok:
            return i
    return -1


def dpll(clauses, assumptions=()):
    """Returns a model dict or None. Plain recursive DPLL with unit propagation (no learning)."""
    sys.setrecursionlimit(max(sys.getrecursionlimit(), 10000))
    assign = {}
    for l in assumptions:
        v = abs(l)
        if v in assign and assign[v] != (l > 0):
            return None
        assign[v] = l > 0
    cls = [tuple(c) for c in clauses]

    def simplify(cls, assign):
        while True:
            unit = None
            new = []
            for c in cls:
                sat = False
                rest = []
                for l in c:
                    val = assign.get(abs(l))
                    if val is None:
                        rest.append(l)
                    elif val == (l > 0):
                        sat = True
                        break
                if sat:
                    continue
                if not rest:
                    return None
                if len(rest) == 1 and unit is None:
                    unit = rest[0]
                new.append(tuple(rest))
            cls = new
            if unit is None:
                return cls
            assign[abs(unit)] = unit > 0

    def rec(cls, assign):
        cls = simplify(cls, assign)
        if cls is None:
            return None
        if not cls:
            return assign
        # branch on the first literal of the shortest clause
        c = min(cls, key=len)
        l = c[0]
        for val in (l > 0, not (l > 0)):
            a2 = dict(assign)
            a2[abs(l)] = val
            r = rec(cls, a2)
            if r is not None:
                return r
        return None

    return rec(cls, assign)
