"""C07 - exact cover: selections are exact covers, find_all lists all of them once (engine E1 + link tap)."""

from __future__ import annotations

import copy

from vf.combi import digits
from vf.guard import call as gcall, too_many_hangs
from vf.core import Job, new_result, viol

LEVEL = "exploration"
RULE = (
    "E1: every 0/1 matrix with r,c <= 4 (incl. empty/duplicate rows, empty columns) x every subset of secondary columns "
    "x find_all in {F,T}; the limit and naming dimensions (max_solutions in {None,1,2}, max_iter in {default,1..6}, "
    "column names default/strings/permuted ints) crossed completely on r,c <= 3 and on 4x4 without secondaries; all "
    "5x4 and 4x5 matrices with find_all. Oracle: enumeration of all row subsets (primaries exactly once, secondaries at "
    "most once, every chosen row covers a primary). Tap: _cover/_uncover are wrapped; each _uncover(c) must restore the "
    "snapshot of the whole link structure taken before the matching _cover(c) (LIFO) and a completed find_all search "
    "must leave the structure as built. Non-trivial = at least one row has to be rejected by backtracking (the number "
    "of exact covers differs from 0 and from the number of candidate rows' subsets) - counted as: matrix has >= 2 rows "
    "with a common column."
)
ASSUMPTIONS = [
    "matrices with at least one row and one column (the degenerate [] and [[]] inputs are outside the enumerated space)",
    "r x c <= 5x4 / 4x5",
    "with a max_solutions cut-off only soundness, distinctness and the count min(k, #covers) are demanded",
]


def exact_covers_rec(rows, ncols, sec_mask):
    """the same set by recursion on the lowest uncovered primary column (for matrices with many rows)"""
    prim = ((1 << ncols) - 1) & ~sec_mask
    cand = [i for i in range(len(rows)) if rows[i] & prim]
    out = set()

    def rec(used, sel):
        open_prim = prim & ~used
        if not open_prim:
            out.add(frozenset(sel))
            return
        col = open_prim & -open_prim
        for i in cand:
            if rows[i] & col and not rows[i] & used:
                rec(used | rows[i], sel + [i])

    rec(0, [])
    return out


def exact_covers(rows, ncols, sec_mask):
    """rows: list of column bitmasks. returns set of frozenset(row indices)."""
    prim = ((1 << ncols) - 1) & ~sec_mask
    out = set()
    r = len(rows)
    cand = [i for i in range(r) if rows[i] & prim]
    if len(cand) > 14:
        return exact_covers_rec(rows, ncols, sec_mask)
    for m in range(1 << len(cand)):
        used = 0
        ok = True
        sel = []
        for k, i in enumerate(cand):
            if m >> k & 1:
                if used & rows[i]:
                    ok = False
                    break
                used |= rows[i]
                sel.append(i)
        if ok and used & prim == prim:
            out.add(frozenset(sel))
    return out


class LinkTap:
    """Wraps solvor.dlx._build_links/_cover/_uncover to check that uncover restores what cover changed."""

    def __init__(self, mod):
        self.mod = mod
        self.orig = (mod._build_links, mod._cover, mod._uncover)
        self.nodes = []
        self.stack = []
        self.errors = []
        self.initial = None
        self.ops = 0
        self.states = set()

    def snapshot(self):
        idx = self.index
        return tuple((idx.get(id(n.left), -1), idx.get(id(n.right), -1), idx.get(id(n.up), -1), idx.get(id(n.down), -1), getattr(n, "size", -1)) for n in self.nodes)

    def install(self):
        tap = self
        ob, oc, ou = self.orig

        def build(matrix, columns=None, secondary=None):
            out = ob(matrix, columns, secondary)
            root, heads = out[0], out[1]
            tap.nodes = []
            if root is not None:
                tap.nodes.append(root)
                for h in heads:
                    tap.nodes.append(h)
                    n = h.down
                    guard = 0
                    while n is not h and guard < 1000:
                        tap.nodes.append(n)
                        n = n.down
                        guard += 1
            tap.index = {id(n): i for i, n in enumerate(tap.nodes)}
            tap.stack = []
            tap.initial = tap.snapshot()
            tap.states.add(tap.initial)
            return out

        def cover(col):
            tap.stack.append((id(col), tap.snapshot()))
            oc(col)
            tap.ops += 1
            tap.states.add(tap.snapshot())

        def uncover(col):
            ou(col)
            tap.ops += 1
            if not tap.stack:
                tap.errors.append("uncover without a matching cover")
                return
            cid, snap = tap.stack.pop()
            if cid != id(col):
                tap.errors.append("uncover order is not the reverse of the cover order")
            elif tap.snapshot() != snap:
                tap.errors.append(f"uncover({getattr(col, 'name', '?')}) did not restore the links that cover({getattr(col, 'name', '?')}) changed")

        self.mod._build_links, self.mod._cover, self.mod._uncover = build, cover, uncover

    def remove(self):
        self.mod._build_links, self.mod._cover, self.mod._uncover = self.orig


def judge(matrix, sec_cols, find_all, max_solutions, max_iter, naming, tap=False):
    """returns (errs, label, nontrivial, tapinfo)"""
    import importlib

    from solvor.types import Status

    dlx = importlib.import_module("solvor.dlx")
    r, c = len(matrix), len(matrix[0])
    if naming == "default":
        names = None
        name_of = list(range(c))
    elif naming == "str":
        name_of = [f"c{j}" for j in range(c)]
        names = list(name_of)
    elif naming == "revint":  # integer names that are a non-identity permutation of the positions
        name_of = [c - 1 - j for j in range(c)]
        names = list(name_of)
    else:
        name_of = [(j * 7 + 3) % 11 for j in range(c)]
        names = list(name_of)
    kw = {"find_all": find_all}
    if names is not None:
        kw["columns"] = names
    if sec_cols:
        kw["secondary"] = [name_of[j] for j in sec_cols]
    if max_solutions is not None:
        kw["max_solutions"] = max_solutions
    if max_iter is not None:
        kw["max_iter"] = max_iter
    rows = [sum(1 << j for j in range(c) if matrix[i][j]) for i in range(r)]
    sec_mask = sum(1 << j for j in sec_cols)
    truth = exact_covers(rows, c, sec_mask)
    if r <= 10 and (sum(rows) + sec_mask) % 16 == 0 and exact_covers_rec(rows, c, sec_mask) != truth:
        from vf.core import HarnessError

        raise HarnessError(f"the two exact-cover oracles disagree on {matrix} secondary {list(sec_cols)}")
    before = copy.deepcopy(matrix)
    t = None
    if tap:
        t = LinkTap(dlx)
        t.install()
    try:
        try:
            res = gcall(lambda: dlx.solve_exact_cover(matrix, **kw))
        finally:
            if t:
                t.remove()
        res2 = gcall(lambda: dlx.solve_exact_cover(matrix, **kw))
    except Exception as ex:  # noqa: BLE001
        return [("raised", f"{type(ex).__name__}: {ex}")], "raised", False, t
    errs = []
    if matrix != before:
        errs.append(("input_modified", f"matrix changed to {matrix}"))
    if (res.solution, res.status, res.objective) != (res2.solution, res2.status, res2.objective):
        errs.append(("not_repeatable", f"second call returned {res2.solution} {res2.status.name}, first {res.solution} {res.status.name}"))
    nontrivial = any(rows[i] & rows[j] for i in range(r) for j in range(i + 1, r))
    limited_iter = max_iter is not None

    def as_sel(s):
        if not isinstance(s, tuple) or len(set(s)) != len(s) or any((not isinstance(x, int)) or x < 0 or x >= r for x in s):
            return None
        return frozenset(s)

    label = res.status.name
    if res.status == Status.MAX_ITER:
        if not limited_iter:
            errs.append(("max_iter_without_limit", "MAX_ITER with the default iteration limit"))
        sols = res.solution if find_all else ([res.solution] if res.solution is not None else [])
        for s in sols or []:
            fs = as_sel(s)
            if fs is None or fs not in truth:
                errs.append(("not_a_cover", f"{s} is not an exact cover"))
    elif res.status == Status.INFEASIBLE:
        if truth:
            errs.append(("wrong_infeasible", f"INFEASIBLE but {sorted(map(sorted, truth))[0]} is an exact cover"))
        if res.solution is not None:
            errs.append(("shape", f"INFEASIBLE with solution {res.solution}"))
    elif not find_all:
        fs = as_sel(res.solution)
        if fs is None or fs not in truth:
            errs.append(("not_a_cover", f"{res.solution} is not an exact cover (covers: {sorted(map(sorted, truth))})"))
        if res.status != Status.OPTIMAL:
            errs.append(("status", f"status {res.status.name} for a single solution"))
    else:
        sols = res.solution
        if not isinstance(sols, list):
            errs.append(("shape", f"find_all returned {sols!r}"))
        else:
            fss = [as_sel(s) for s in sols]
            if any(f is None or f not in truth for f in fss):
                bad = [s for s, f in zip(sols, fss) if f is None or f not in truth][0]
                errs.append(("not_a_cover", f"{bad} is not an exact cover"))
            elif len(set(fss)) != len(fss):
                errs.append(("duplicate_cover", f"a cover is listed twice: {sols}"))
            elif max_solutions is None:
                if set(fss) != truth:
                    miss = sorted(map(sorted, truth - set(fss)))
                    errs.append(("missing_cover", f"find_all returned {len(fss)} of {len(truth)} covers; missing {miss[:3]}"))
                if res.status != Status.OPTIMAL:
                    errs.append(("status", f"status {res.status.name} for a complete enumeration"))
            else:
                want = min(max_solutions, len(truth))
                if len(fss) != want:
                    errs.append(("wrong_count", f"{len(fss)} covers returned, expected min(max_solutions, #covers) = {want}"))
                if len(truth) < max_solutions and res.status != Status.OPTIMAL:
                    errs.append(("status", f"status {res.status.name} although all {len(truth)} covers were found below the cut-off"))
                if len(truth) > max_solutions and res.status != Status.FEASIBLE:
                    errs.append(("status", f"status {res.status.name} although the cut-off stopped the enumeration"))
            if not errs and res.objective != len(sols):
                errs.append(("objective", f"objective {res.objective} != number of covers {len(sols)}"))
    if t is not None:
        if t.errors:
            errs.append(("links_not_restored", t.errors[0]))
        complete = find_all and max_solutions is None and res.status in (Status.OPTIMAL, Status.INFEASIBLE)
        if complete and not t.errors and t.nodes:
            if t.stack:
                errs.append(("links_not_restored", f"{len(t.stack)} covers were never undone after a completed search"))
            elif t.snapshot() != t.initial:
                errs.append(("links_not_restored", "link structure after a completed find_all search differs from the structure as built"))
    return errs, label + ("/all" if find_all else ""), nontrivial, t


def run_case(r, matrix, sec_cols, find_all, max_solutions=None, max_iter=None, naming="default", tap=False):
    errs, label, nt, t = judge(matrix, sec_cols, find_all, max_solutions, max_iter, naming, tap)
    r["n"] += 1
    r["outcomes"][label] += 1
    if nt:
        r["nontrivial"] += 1
    if t is not None:
        r["counters"]["tap_cover_uncover_calls"] += t.ops
        r["counters"]["tap_link_states"] += len(t.states)
    wit = {"matrix": matrix, "secondary": list(sec_cols), "find_all": find_all, "max_solutions": max_solutions, "max_iter": max_iter, "naming": naming}
    if not r["samples"]:
        r["samples"].append(wit)
    for kind, detail in errs:
        r["violations"].append(viol("solve_exact_cover", kind, wit, f"solve_exact_cover({matrix}, secondary={list(sec_cols)}, find_all={find_all}, max_solutions={max_solutions}, max_iter={max_iter}, naming={naming}): {detail}"))


def _matrix(code, rows, cols):
    bits = digits(code, 2, rows * cols)
    return [bits[i * cols : (i + 1) * cols] for i in range(rows)]


def _basic_chunk(params, lo, hi):
    """index = ((matrix * 2^c) + secondary_subset) * 2 + find_all"""
    rows, cols, tap_mod = params
    r = new_result()
    for idx in range(lo, hi):
        fa = bool(idx % 2)
        k = idx // 2
        sec = k % (1 << cols)
        code = k >> cols
        m = _matrix(code, rows, cols)
        run_case(r, m, [j for j in range(cols) if sec >> j & 1], fa, tap=(tap_mod and code % tap_mod == 0 and fa))
        if len(r["violations"]) >= 40 or too_many_hangs():
            r["capped"] = True
            break
    return r


LIMITS = [(None, None)] + [(ms, None) for ms in (1, 2)] + [(None, mi) for mi in (1, 2, 3, 4, 5, 6)] + [(1, 2), (2, 3)]
NAMINGS = ("default", "str", "perm", "revint")


def _limits_chunk(params, lo, hi):
    """index = (((matrix * S) + sec) * |LIMITS| + limit) * |NAMINGS| + naming, find_all alternates and both run"""
    rows, cols, with_sec = params
    S = (1 << cols) if with_sec else 1
    r = new_result()
    for idx in range(lo, hi):
        if with_sec:
            nm = NAMINGS[idx % len(NAMINGS)]
            k = idx // len(NAMINGS)
        else:  # naming rotates with the index instead of being crossed
            nm = NAMINGS[idx % len(NAMINGS)]
            k = idx
        ms, mi = LIMITS[k % len(LIMITS)]
        k //= len(LIMITS)
        sec = k % S
        code = k // S
        m = _matrix(code, rows, cols)
        sc = [j for j in range(cols) if sec >> j & 1]
        for fa in (False, True):
            run_case(r, m, sc, fa, ms, mi, nm, tap=(mi is None and fa and rows * cols <= 9))
        if len(r["violations"]) >= 40 or too_many_hangs():
            r["capped"] = True
            break
    return r


def nqueens_matrix(n, order):
    """one row per placement (i,j): primary columns 'row i' and 'column j', secondary columns for the two diagonals"""
    cells = [(i, j) for i in range(n) for j in range(n)]
    if order == 1:
        cells.reverse()
    elif order == 2:
        cells.sort(key=lambda ij: (ij[1], ij[0]))
    elif order == 3:
        cells.sort(key=lambda ij: ((ij[0] * 3 + ij[1] * 5) % 7, ij))
    ncols = 2 * n + 2 * (2 * n - 1)
    m = []
    for i, j in cells:
        row = [0] * ncols
        row[i] = row[n + j] = row[2 * n + i + j] = row[2 * n + (2 * n - 1) + (i - j + n - 1)] = 1
        m.append(row)
    return m, list(range(2 * n, ncols))


def _queens_chunk(params, lo, hi):
    """n-queens (n = 1..7) as exact cover with secondary diagonal columns x 4 row orders x find_all x max_solutions {None, 2}:
    two row choices that cover the same primary columns but different secondary ones, search trees deeper than any 4x4
    matrix gives. index = ((n_index*4 + order)*2 + find_all)*2 + limited"""
    ns = params
    r = new_result()
    for idx in range(lo, hi):
        limited = idx % 2
        fa = bool(idx // 2 % 2)
        order = idx // 4 % 4
        n = ns[idx // 16]
        m, sec = nqueens_matrix(n, order)
        run_case(r, m, sec, fa, max_solutions=2 if limited else None)
        if len(r["violations"]) >= 40 or too_many_hangs():
            r["capped"] = True
            break
    return r


def large_matrices():
    """larger structured matrices (name, matrix, secondary columns): 70 singleton rows, and 'singletons and adjacent pairs'
    over 12 columns, whose exact covers are the domino/monomino tilings of a 1x12 strip (233 of them)"""
    out = []
    n = 70
    out.append(("identity70", [[1 if i == j else 0 for j in range(n)] for i in range(n)], []))
    out.append(("reversed_identity70_plus_heavy_row", [[1] * n] + [[1 if i == n - 1 - j else 0 for j in range(n)] for i in range(n)], []))
    m = 12
    rows = [[1 if j == i else 0 for j in range(m)] for i in range(m)] + [[1 if j in (i, i + 1) else 0 for j in range(m)] for i in range(m - 1)]
    out.append(("strip12_singletons_then_pairs", rows, []))
    out.append(("strip12_pairs_then_singletons", rows[m:] + rows[:m], []))
    out.append(("strip12_interleaved_last_two_secondary", [rows[k // 2] if k % 2 == 0 else rows[m + k // 2] for k in range(2 * m - 1)], [m - 2, m - 1]))
    return out


def _large_chunk(params, lo, hi):
    ms = large_matrices()
    r = new_result()
    for idx in range(lo, hi):
        name, matrix, sec = ms[idx // 3]
        mode = idx % 3
        run_case(r, [list(row) for row in matrix], sec, find_all=(mode != 0), max_solutions=(5 if mode == 2 else None))
    return r


def deep_matrices():
    """matrices whose only exact cover has far more rows than the interpreter's recursion limit allows frames:
    (name, matrix, the unique cover as a sorted tuple of row indices)"""
    out = []
    n = 1500
    out.append(("identity1500", [[1 if i == j else 0 for j in range(n)] for i in range(n)], tuple(range(n))))
    m = 2400  # a 1 x 2400 strip and all 2399 dominoes: the only tiling uses dominoes 0, 2, 4, ...
    out.append(("strip2400_dominoes", [[1 if j in (i, i + 1) else 0 for j in range(m)] for i in range(m - 1)], tuple(range(0, m - 1, 2))))
    return out


def _deep_chunk(params, lo, hi):
    import solvor.dlx as dlx
    from solvor.types import Status

    ms = deep_matrices()
    r = new_result()
    for idx in range(lo, hi):
        name, matrix, want = ms[idx // 2]
        find_all = idx % 2 == 1
        wit = {"deep": name, "find_all": find_all}
        how = f"solve_exact_cover({name}, find_all={find_all})"
        r["n"] += 1
        r["nontrivial"] += 1
        before = [row[:] for row in matrix[:3]]
        try:
            res = gcall(lambda: dlx.solve_exact_cover(matrix, find_all=find_all), 60.0, 400_000_000)
        except Exception as ex:  # noqa: BLE001
            r["outcomes"]["deep:raised"] += 1
            r["violations"].append(viol("solve_exact_cover", "raised", wit, f"{how}: {type(ex).__name__}: {str(ex)[:120]}"))
            continue
        got = res.solution
        if find_all:
            ok = res.status == Status.OPTIMAL and isinstance(got, list) and len(got) == 1 and tuple(sorted(got[0])) == want
        else:
            ok = res.status == Status.OPTIMAL and got is not None and tuple(sorted(got)) == want
        r["outcomes"][f"deep:{'ok' if ok else 'wrong'}"] += 1
        if not ok:
            r["violations"].append(viol("solve_exact_cover", "wrong_on_deep_matrix", wit, f"{how}: status {res.status.name}, answer differs from the unique cover of {len(want)} rows"))
        if matrix[:3] != before:
            r["violations"].append(viol("solve_exact_cover", "input_modified", wit, f"{how}: the input matrix was modified"))
    return r


def _big_chunk(params, lo, hi):
    rows, cols, off = params
    r = new_result()
    for idx in range(lo, hi):
        m = _matrix(off + idx, rows, cols)
        run_case(r, m, [], True, tap=((off + idx) % 4 == 0))
        if len(r["violations"]) >= 40 or too_many_hangs():
            r["capped"] = True
            break
    return r


def jobs(tier, seed):
    js = []
    for rows in (1, 2, 3, 4):
        for cols in (1, 2, 3, 4):
            js.append(Job(f"basic_{rows}x{cols}", 2 ** (rows * cols) * 2**cols * 2, _basic_chunk, (rows, cols, 1 if rows * cols <= 12 else 4), describe="all matrices x all secondary subsets x find_all; link tap on find_all runs"))
    for rows in (1, 2, 3):
        for cols in (1, 2, 3):
            js.append(Job(f"limits_{rows}x{cols}", 2 ** (rows * cols) * 2**cols * len(LIMITS) * len(NAMINGS), _limits_chunk, (rows, cols, True), describe="max_solutions / max_iter / column naming cross, all secondary subsets"))
    qn = (1, 2, 3, 4, 5, 6, 7) if tier == "thorough" else (1, 2, 3, 4, 5, 6)
    js.append(Job("n_queens_secondary_diagonals", len(qn) * 16, _queens_chunk, qn, chunk=1, describe=f"n-queens for n in {qn} as exact cover with secondary diagonals, 4 row orders, find_all on/off, max_solutions None/2"))
    js.append(Job("large_structured", len(large_matrices()) * 3, _large_chunk, None, chunk=1, describe="70x70 identity (also reversed with a heavy first row), monomino/domino tilings of a 1x12 strip (233 covers) in three row orders, one with secondary columns; single solution, find_all, max_solutions=5"))
    js.append(Job("deep_unique_covers", len(deep_matrices()) * 2, _deep_chunk, None, chunk=1, describe="1500x1500 identity and the 2399 dominoes of a 1x2400 strip: the unique cover has 1500 / 1200 rows (search depth beyond the interpreter's recursion limit); single solution and find_all"))
    js.append(Job("limits_4x4_nosec", 2**16 * len(LIMITS), _limits_chunk, (4, 4, False), describe="limit cross on all 4x4 matrices without secondary columns; column naming rotates with the index"))
    if tier == "thorough":
        js.append(Job("big_5x4", 2**20, _big_chunk, (5, 4, 0), describe="all 5x4 matrices, find_all"))
        js.append(Job("big_4x5", 2**20, _big_chunk, (4, 5, 0), describe="all 4x5 matrices, find_all"))
        js.append(Job("basic_5x4_secondary", 2**20 * 16 * 2, _basic_chunk, (5, 4, 0), describe="all 5x4 matrices x secondary subsets x find_all"))
    else:
        b = seed % 4
        for rows, cols in ((5, 4), (4, 5)):
            size = 2**20
            lo, hi = size * b // 4, size * (b + 1) // 4
            js.append(Job(f"big_{rows}x{cols}_block{b}of4", hi - lo, _big_chunk, (rows, cols, lo), describe="rotating quarter (VERIF_SEED) of all 5x4 / 4x5 matrices, find_all, link tap on every 4th"))
    return js


def replay(v):
    w = v["witness"]
    if w.get("deep"):
        i = [m[0] for m in deep_matrices()].index(w["deep"]) * 2 + (1 if w.get("find_all") else 0)
        r = _deep_chunk(None, i, i + 1)
        return r["violations"][0] if r["violations"] else None
    errs, _, _, _ = judge(w["matrix"], w["secondary"], w["find_all"], w["max_solutions"], w["max_iter"], w["naming"], tap=True)
    for kind, detail in errs:
        if kind == v["kind"]:
            return {"function": "solve_exact_cover", "kind": kind, "detail": detail}
    if errs:
        return {"function": "solve_exact_cover", "kind": errs[0][0], "detail": errs[0][1]}
    return None
