"""C12 - Rust and Python back-ends are observably equivalent (engine E1, differential; extension rebuilt from rust/)."""

from __future__ import annotations

import os

from vf.combi import digits
from vf.core import HarnessError, Job, new_result, viol
from vf.guard import SolverHang
from vf.guard import call as gcall
from vf.guard import too_many_hangs

LEVEL = "exploration"
RULE = (
    "E1: for each of the nine accelerated functions every ordered edge list of length <=3 (<=4 for the unweighted ones) "
    "over all (u,v[,w]) on 3 nodes and length <=2 on 4 nodes (duplicates, anti-parallel pairs of different weight, self "
    "loops and isolated nodes occur by construction; weights {0,1,2,5}, plus {-2,-1} for bellman_ford / floyd_warshall), "
    "every source, every target and no target, directed and undirected, allow_forest both, damping {0.5,0.85} and "
    "max_iter {1,2,5,100} for pagerank, is run with backend='python', backend='rust' and the default against the "
    "extension built from rust/ of the working tree. The Python result is the reference model of the Rust result. "
    "Non-trivial = the edge list has at least two edges."
)
ASSUMPTIONS = [
    "node indices in range (valid inputs); n <= 4",
    "iterations / evaluations are not part of the meaning and are not compared",
    "PageRank scores are compared within 2*n*tol/(1-damping) (contraction bound), DFS paths only for validity",
]

INF = float("inf")


def numeq(a, b):
    return a == b or (a != a and b != b)


def path_ok(path, n, edges, s, t, weighted):
    if not path or path[0] != s or path[-1] != t:
        return None
    best = {}
    for e in edges:
        w = e[2] if weighted else 1
        k = (e[0], e[1])
        if k not in best or w < best[k]:
            best[k] = w
    tot = 0
    for a, b in zip(path, path[1:]):
        if (a, b) not in best:
            return None
        tot += best[(a, b)]
    return tot


def same_status(fname, py, rs, out):
    if py.status != rs.status:
        out.append(("status_differs", f"python {py.status.name}, rust {rs.status.name}"))
        return False
    return True


def compare(fname, py, rs, n, edges, kw):
    from solvor.types import Status

    out = []
    if not same_status(fname, py, rs, out):
        return out
    if py.status in (Status.INFEASIBLE, Status.UNBOUNDED):
        return out
    t = kw.get("target")
    s = kw.get("source", kw.get("start"))
    if fname == "floyd_warshall":
        a, b = py.solution, rs.solution
        if len(a) != len(b) or any(not numeq(float(x), float(y)) for ra, rb in zip(a, b) for x, y in zip(ra, rb)):
            out.append(("distances_differ", f"python {a}, rust {b}"))
    elif fname in ("bellman_ford", "dijkstra_edges"):
        if t is None:
            a = {k: float(v) for k, v in py.solution.items()}
            b = {k: float(v) for k, v in rs.solution.items()}
            if a != b:
                out.append(("distances_differ", f"python {a}, rust {b}"))
        else:
            if float(py.objective) != float(rs.objective):
                out.append(("distance_differs", f"python {py.objective}, rust {rs.objective}"))
            for who, r in (("python", py), ("rust", rs)):
                c = path_ok(list(r.solution), n, edges, s, t, True)
                if c is None or float(c) != float(r.objective):
                    out.append(("invalid_path", f"{who} path {r.solution} (cost {c}) for reported distance {r.objective}"))
    elif fname in ("bfs_edges", "dfs_edges"):
        if t is None:
            if list(py.solution) != list(rs.solution):
                out.append(("reachable_differs", f"python {list(py.solution)}, rust {list(rs.solution)}"))
        else:
            for who, r in (("python", py), ("rust", rs)):
                c = path_ok(list(r.solution), n, edges, s, t, False)
                if c is None or c != r.objective:
                    out.append(("invalid_path", f"{who} path {r.solution} for objective {r.objective}"))
            if fname == "bfs_edges" and py.objective != rs.objective:
                out.append(("distance_differs", f"python {py.objective} hops, rust {rs.objective} hops"))
    elif fname == "kruskal":
        if float(py.objective) != float(rs.objective):
            out.append(("weight_differs", f"python {py.objective}, rust {rs.objective}"))
        for who, r in (("python", py), ("rust", rs)):
            pool = [tuple(e) for e in edges]
            comp = list(range(n))

            def find(x):
                while comp[x] != x:
                    x = comp[x]
                return x

            okk = True
            for e in r.solution:
                e = tuple(e)
                m = [p for p in pool if p[0] == e[0] and p[1] == e[1] and float(p[2]) == float(e[2])]
                if not m:
                    okk = False
                    break
                pool.remove(m[0])
                a, b = find(e[0]), find(e[1])
                if a == b:
                    okk = False
                    break
                comp[a] = b
            if not okk:
                out.append(("invalid_tree", f"{who} edges {r.solution} are not a forest of input edges"))
        if len(py.solution) != len(rs.solution):
            out.append(("edge_count_differs", f"python {len(py.solution)} edges, rust {len(rs.solution)}"))
    elif fname == "pagerank_edges":
        d = kw.get("damping", 0.85)
        tol = kw.get("tol", 1e-6)
        bound = 2 * n * tol / (1 - d) + 1e-12
        if py.status == Status.OPTIMAL:
            worst = max(abs(py.solution[i] - rs.solution[i]) for i in range(n))
            if worst > bound:
                out.append(("scores_differ", f"max score difference {worst:.3g} > {bound:.3g}: python {py.solution}, rust {rs.solution}"))
        else:  # both stopped by max_iter after the same number of synchronous sweeps
            worst = max(abs(py.solution[i] - rs.solution[i]) for i in range(n))
            if worst > 1e-9:
                out.append(("scores_differ", f"after the same max_iter the scores differ by {worst:.3g}: python {py.solution}, rust {rs.solution}"))
    elif fname == "strongly_connected_components_edges":
        pa = {frozenset(c) for c in py.solution}
        pb = {frozenset(c) for c in rs.solution}
        if pa != pb:
            out.append(("partition_differs", f"python {py.solution}, rust {rs.solution}"))
        for who, r in (("python", py), ("rust", rs)):
            pos = {x: i for i, c in enumerate(r.solution) for x in c}
            if any(pos[u] < pos[v] for u, v in edges):
                out.append(("not_sinks_first", f"{who} order {r.solution}"))
        if py.objective != rs.objective:
            out.append(("objective_differs", f"python {py.objective}, rust {rs.objective}"))
    elif fname == "topological_sort_edges":
        for who, r in (("python", py), ("rust", rs)):
            order = list(r.solution)
            pos = {x: i for i, x in enumerate(order)}
            if sorted(order) != list(range(n)) or any(pos[u] >= pos[v] for u, v in edges):
                out.append(("invalid_order", f"{who} order {order}"))
    return out


def same_result(a, b):
    return a.status == b.status and repr(a.solution) == repr(b.solution) and numeq(a.objective, b.objective)


def run_case(r, fname, fn, args, kw, n, edges):
    wit = {"function": fname, "args": [list(map(list, a)) if isinstance(a, list) else a for a in args], "kwargs": kw}
    r["n"] += 1
    if len(edges) >= 2:
        r["nontrivial"] += 1
    res = {}
    for be in ("python", "rust", None):
        try:
            k2 = {k: v for k, v in kw.items() if k not in ("source", "start")}
            if be:
                k2["backend"] = be
            res[be] = gcall(lambda: fn(*args, **k2))
        except Exception as ex:  # noqa: BLE001
            res[be] = ex
    py, rs, df = res["python"], res["rust"], res[None]
    if isinstance(py, Exception) or isinstance(rs, Exception):
        hung = [be for be, x in (("python", py), ("rust", rs)) if isinstance(x, SolverHang)]
        if hung:  # a call that never returns gives no status and no answer, whichever back-ends do it
            r["outcomes"][fname + ":nontermination"] += 1
            r["violations"].append(viol(fname, "nontermination", wit, f"{fname}{tuple(args)} {kw}: backend {' and '.join(hung)} did not return within the fuel / time budget"))
        elif type(py) is not type(rs):
            r["outcomes"][fname + ":exception_mismatch"] += 1
            r["violations"].append(viol(fname, "exception_differs", wit, f"{fname}{tuple(args)} {kw}: python -> {py!r}, rust -> {rs!r}"))
        else:
            r["outcomes"][fname + ":both_raise"] += 1
        return
    r["outcomes"][f"{fname}:{py.status.name}"] += 1
    for kind, detail in compare(fname, py, rs, n, edges, kw):
        r["violations"].append(viol(fname, kind, wit, f"{fname}{tuple(args)} {kw}: {detail}"))
    if isinstance(df, Exception) or not same_result(df, rs):
        r["violations"].append(viol(fname, "default_is_not_rust", wit, f"{fname}{tuple(args)} {kw}: default backend gives {df if isinstance(df, Exception) else (df.status.name, df.solution)}, rust gives {(rs.status.name, rs.solution)}"))
    if not r["samples"]:
        r["samples"].append(wit)


def edge_lists(n, L, weights, idx):
    """idx-th ordered edge list of exactly L edges over all (u, v[, w])"""
    if weights:
        opts = [(u, v, w) for u in range(n) for v in range(n) for w in weights]
    else:
        opts = [(u, v) for u in range(n) for v in range(n)]
    return [opts[d] for d in digits(idx, len(opts), L)], len(opts)


def _chunk(params, lo, hi):
    import solvor
    from solvor.rust import rust_available

    if not rust_available():
        raise HarnessError("the Rust extension did not load from the overlay (C12 cannot run)")
    fname, n, L, weights = params
    fn = getattr(solvor, fname)
    r = new_result()
    for idx in range(lo, hi):
        edges, _ = edge_lists(n, L, weights, idx)
        if fname == "floyd_warshall":
            for directed in (True, False):
                run_case(r, fname, fn, (n, edges), {"directed": directed}, n, edges)
        elif fname == "bellman_ford":
            for s in range(n):
                for t in [None] + list(range(n)):
                    run_case(r, fname, fn, (s, edges, n), {"target": t, "start": s}, n, edges)
        elif fname in ("dijkstra_edges", "bfs_edges", "dfs_edges"):
            for s in range(n):
                for t in [None] + list(range(n)):
                    run_case(r, fname, fn, (n, edges, s), {"target": t, "source": s}, n, edges)
        elif fname == "kruskal":
            for af in (False, True):
                run_case(r, fname, fn, (n, edges), {"allow_forest": af}, n, edges)
        elif fname == "pagerank_edges":
            for d in (0.5, 0.85):
                for mi in (1, 2, 5, 100):
                    run_case(r, fname, fn, (n, edges), {"damping": d, "max_iter": mi}, n, edges)
        else:
            run_case(r, fname, fn, (n, edges), {}, n, edges)
        if len(r["violations"]) >= 40 or too_many_hangs():
            r["capped"] = True
            break
    return r


LARGE_FUNCS = ("floyd_warshall", "dijkstra_edges", "bellman_ford", "kruskal", "bfs_edges", "dfs_edges", "strongly_connected_components_edges", "topological_sort_edges", "pagerank_edges")


def large_cases():
    """(function, n, edges) over larger structured graphs: the digraphs of C11's large family, the undirected ones of C13's
    (read as directed arc lists where the function is directed), a 7-node kruskal instance per union order"""
    from checks import c11, c13, c14

    gs = [(nm, n, [tuple(e) for e in es]) for nm, n, es in c11.large_graphs()] + [(nm, n, [tuple(e) for e in es]) for nm, n, es in c13.large_graphs()]
    # the directed lollipops and fans of C14 (paths into cycles around 16 / 32 / 64 nodes, wide layers with a duplicate edge)
    gs += [(nm, n, [(u, v, 1 + (u + 2 * v) % 3) for u in range(n) for v in adj[u]]) for nm, n, adj in c14.large_graphs() if n <= 70 and (nm.startswith("lollipop") or nm.startswith("fan_"))]
    gs.append(("kruskal_rank_merge_7", 7, [(0, 1, 1), (2, 3, 2), (0, 2, 3), (4, 5, 4), (1, 5, 5), (4, 2, 6), (6, 0, 7)]))
    gs.append(("kruskal_rank_merge_9", 9, [(1, 0, 1), (3, 2, 2), (5, 4, 3), (7, 6, 4), (3, 1, 5), (7, 5, 6), (7, 3, 7), (8, 6, 8), (2, 8, 9)]))
    out = []
    for nm, n, es in gs:
        for f in LARGE_FUNCS:
            out.append((f, nm, n, es))
    return out


def _large_chunk(params, lo, hi):
    import solvor
    from solvor.rust import rust_available

    if not rust_available():
        raise HarnessError("the Rust extension did not load from the overlay (C12 cannot run)")
    cases = large_cases()
    r = new_result()
    for idx in range(lo, hi):
        fname, nm, n, es = cases[idx]
        fn = getattr(solvor, fname)
        weighted = fname in ("floyd_warshall", "dijkstra_edges", "bellman_ford", "kruskal")
        edges = list(es) if weighted else [(u, v) for u, v, _ in es]
        if fname == "floyd_warshall":
            for directed in (True, False):
                run_case(r, fname, fn, (n, edges), {"directed": directed}, n, edges)
        elif fname == "bellman_ford":
            for s in (0, n - 1):
                for t in (None, n // 2):
                    run_case(r, fname, fn, (s, edges, n), {"target": t, "start": s}, n, edges)
        elif fname in ("dijkstra_edges", "bfs_edges", "dfs_edges"):
            for s in (0, n - 1):
                for t in (None, n // 2):
                    run_case(r, fname, fn, (n, edges, s), {"target": t, "source": s}, n, edges)
        elif fname == "kruskal":
            for af in (False, True):
                run_case(r, fname, fn, (n, edges), {"allow_forest": af}, n, edges)
                run_case(r, fname, fn, (n, [(v, u, w) for u, v, w in edges]), {"allow_forest": af}, n, [(v, u, w) for u, v, w in edges])
        elif fname == "pagerank_edges":
            run_case(r, fname, fn, (n, edges), {"damping": 0.85, "max_iter": 100}, n, edges)
        else:
            run_case(r, fname, fn, (n, edges), {}, n, edges)
        if len(r["violations"]) >= 40 or too_many_hangs():
            r["capped"] = True
            break
    return r


# ---------------------------------------------------------------------- deep graphs, one subprocess per case
# A native stack overflow inside the extension kills the interpreter, so these cases cannot run inside a pool worker:
# each (function, graph, back-end) runs in its own interpreter and prints a digest of its answer.

DEEP_N = 120000
DEEP_FUNCS = ["strongly_connected_components_edges", "topological_sort_edges", "bfs_edges", "dfs_edges", "dijkstra_edges", "bellman_ford", "kruskal", "pagerank_edges"]
DEEP_GRAPHS = ["path", "cycle", "reversed_path_listing", "path_edges_pointing_back"]

_DEEP_SCRIPT = r"""
import sys, hashlib, json
sys.path.insert(0, sys.argv[1])
import solvor
fname, graph, be, N = sys.argv[2], sys.argv[3], sys.argv[4], int(sys.argv[5])
if graph == "path":
    el = [(i, i + 1) for i in range(N - 1)]
elif graph == "cycle":
    el = [(i, (i + 1) % N) for i in range(N)]
elif graph == "path_edges_pointing_back":  # (new node, old node) in ascending order: unions that name the growing component second
    el = [(i + 1, i) for i in range(N - 2)] + [(0, N - 1)]  # the last node hangs off node 0 by the heaviest edge: the far end of the chain is asked for last
else:
    el = [(i, i + 1) for i in range(N - 2, -1, -1)]
kw = {} if be == "default" else {"backend": be}
fn = getattr(solvor, fname)
if fname in ("strongly_connected_components_edges", "topological_sort_edges"):
    r = fn(N, el, **kw)
elif fname in ("bfs_edges", "dfs_edges"):
    r = fn(N, el, 0, **kw)
elif fname == "dijkstra_edges":
    r = fn(N, [(u, v, 1.0) for u, v in el], 0, **kw)
elif fname == "bellman_ford":
    if graph in ("reversed_path_listing", "path_edges_pointing_back"):  # worst-case listings: n rounds of m relaxations each, so a fortieth of the size
        N = N // 40
        el = [(i, i + 1) for i in range(N - 2, -1, -1)] if graph == "reversed_path_listing" else [(i + 1, i) for i in range(N - 2)] + [(0, N - 1)]
    r = fn(0, [(u, v, 1.0) for u, v in el], N, **kw)
elif fname == "kruskal":
    r = fn(N, [(u, v, (1.0 if u > v else 2.0) if graph == "path_edges_pointing_back" else float(1 + (u % 3))) for u, v in el], **kw)
else:
    N = N // 10
    el = [e for e in el if e[0] < N and e[1] < N]
    r = fn(N, el, max_iter=30, **kw)
sol = r.solution
if fname == "strongly_connected_components_edges":
    canon = sorted(sorted(c) for c in sol)
    order_ok = True
    pos = {}
    for i, c in enumerate(sol):
        for x in c:
            pos[x] = i
    for u, v in el:
        if pos[u] < pos[v]:
            order_ok = False
    digest = [len(sol), hashlib.sha1(repr(canon).encode()).hexdigest(), order_ok]
elif fname == "topological_sort_edges":
    ok = None
    if sol is not None:
        pos = {x: i for i, x in enumerate(sol)}
        ok = len(pos) == N and all(pos[u] < pos[v] for u, v in el)
    digest = [ok]
elif fname == "dfs_edges":
    digest = [sorted(sol) == list(range(N)) if graph != "x" else None, len(sol)]
elif fname == "kruskal":
    digest = [len(sol) if sol is not None else None]
elif fname == "pagerank_edges":
    digest = [round(sum(sol.values()), 9), round(max(sol.values()), 6), round(min(sol.values()), 9)]
elif isinstance(sol, dict):
    digest = [len(sol), hashlib.sha1(repr(sorted(sol.items())).encode()).hexdigest()]
else:
    digest = [hashlib.sha1(repr(sol).encode()).hexdigest()]
# the objective is compared where it carries meaning (number of components, total weight, distance), as in compare()
obj = r.objective if fname in ("strongly_connected_components_edges", "kruskal") else None
print(json.dumps({"status": r.status.name, "objective": obj, "digest": digest}))
"""


def _deep_chunk(params, lo, hi):
    import json
    import subprocess
    import sys as _sys

    overlay = os.environ.get("SOLVOR_OVERLAY")
    if not overlay:
        raise HarnessError("SOLVOR_OVERLAY is not set (C12 cannot run)")
    r = new_result()
    for idx in range(lo, hi):
        fname = DEEP_FUNCS[idx // len(DEEP_GRAPHS)]
        graph = DEEP_GRAPHS[idx % len(DEEP_GRAPHS)]
        wit = {"function": fname, "deep": graph, "n": DEEP_N}
        r["n"] += 1
        r["nontrivial"] += 1
        out = {}
        for be in ("python", "rust", "default"):
            try:
                p = subprocess.run([_sys.executable, "-B", "-c", _DEEP_SCRIPT, overlay, fname, graph, be, str(DEEP_N)], capture_output=True, text=True, timeout=900)
            except subprocess.TimeoutExpired:
                out[be] = ("timeout", None)
                continue
            if p.returncode != 0:
                last = (p.stderr.strip().splitlines() or [""])[-1][:160]
                out[be] = ("died", f"exit status {p.returncode}" + (" (killed by signal %d)" % -p.returncode if p.returncode < 0 else "") + (f": {last}" if last else ""))
            else:
                try:
                    out[be] = ("ok", json.loads(p.stdout.strip().splitlines()[-1]))
                except Exception:  # noqa: BLE001
                    out[be] = ("died", "no digest printed")
        how = f"{fname} on a {graph} of {DEEP_N} nodes"
        label = "/".join(out[be][0] for be in ("python", "rust", "default"))
        r["outcomes"][f"deep:{label}"] += 1
        py, rs, df = out["python"], out["rust"], out["default"]
        if py[0] == "ok" and rs[0] != "ok":
            r["violations"].append(viol(fname, "rust_backend_crashed", wit, f"{how}: backend='python' answers {py[1]['status']}, backend='rust' {rs[0]}: {rs[1]}"))
        elif py[0] != "ok" and rs[0] == "ok":
            r["violations"].append(viol(fname, "python_backend_crashed", wit, f"{how}: backend='rust' answers {rs[1]['status']}, backend='python' {py[0]}: {py[1]}"))
        elif py[0] == "ok" and rs[0] == "ok" and py[1] != rs[1]:
            r["violations"].append(viol(fname, "deep_answers_differ", wit, f"{how}: python {py[1]}, rust {rs[1]}"))
        if rs[0] == "ok" and (df[0] != "ok" or df[1] != rs[1]):
            r["violations"].append(viol(fname, "default_is_not_rust", wit, f"{how}: default backend {df}, rust {rs[1]}"))
    return r


def _strip(kw):
    return {k: v for k, v in kw.items() if k not in ("source", "start")}


W = (0, 1, 2, 5)
WN = (-2, -1, 0, 1, 2)
WT = (1.0, -1.0, -1.0000000001, 3e-11, -3e-11)


def jobs(tier, seed):
    js = []

    def add(fname, n, L, weights, tag=None):
        nopt = n * n * (len(weights) if weights else 1)
        tag = tag or ("" if not weights else ("_neg" if min(weights) < 0 else "_w" + "".join(map(str, weights))))
        js.append(Job(f"{fname}_n{n}_len{L}{tag}", nopt**L, _chunk, (fname, n, L, weights), describe=f"all ordered edge lists of {L} edges on {n} nodes" + (f", weights {weights}" if weights else "")))

    js.append(Job("large_structured", len(large_cases()), _large_chunk, None, chunk=4, describe="the nine functions on the larger structured graphs of C11 and C13 (chains of 40, grids, complete graphs on 9-13 nodes, 70-node path and cycle) and two kruskal instances whose unions merge rank-2 trees through non-root members"))
    js.append(Job("deep_subprocess", len(DEEP_FUNCS) * len(DEEP_GRAPHS), _deep_chunk, None, chunk=1, describe=f"eight functions on a directed path, a cycle and a path listed backwards, {DEEP_N} nodes each (pagerank: a tenth), every back-end in its own interpreter: a native stack overflow must not kill the caller, digests of the answers must agree"))
    th = tier == "thorough"
    for fname, weights in (("floyd_warshall", W), ("dijkstra_edges", W), ("kruskal", W)):
        for L in (0, 1, 2, 3):
            add(fname, 3, L, weights)
        for L in (1, 2) + ((3,) if th else ()):
            add(fname, 4, L, weights if not th or L < 3 else (1, 2))
    for fname in ("floyd_warshall", "bellman_ford"):
        for L in (0, 1, 2, 3) if fname == "bellman_ford" else (1, 2, 3):
            add(fname, 3, L, WN)
        add(fname, 4, 2, (-1, 1, 2))
    for fname in ("floyd_warshall", "bellman_ford"):  # cycles whose weight is a rounding error away from zero
        for L in (1, 2, 3):
            add(fname, 3, L, WT, tag="_near_zero_cycles")
    for fname in ("bfs_edges", "dfs_edges", "strongly_connected_components_edges", "topological_sort_edges", "pagerank_edges"):
        for L in (0, 1, 2, 3, 4):
            add(fname, 3, L, None)
        for L in (1, 2, 3) + ((4,) if th else ()):
            add(fname, 4, L, None)
    return js


def replay(v):
    import solvor

    w = v["witness"]
    fname = w["function"]
    if w.get("deep"):
        i = DEEP_FUNCS.index(fname) * len(DEEP_GRAPHS) + DEEP_GRAPHS.index(w["deep"])
        r = _deep_chunk(None, i, i + 1)
        for x in r["violations"]:
            if x["kind"] == v["kind"]:
                return x
        return r["violations"][0] if r["violations"] else None
    fn = getattr(solvor, fname)
    args = [[tuple(e) for e in a] if isinstance(a, list) else a for a in w["args"]]
    kw = dict(w["kwargs"])
    r = new_result()
    edges = next(a for a in args if isinstance(a, list))
    n = [a for a in args if isinstance(a, int)]
    nn = args[2] if fname == "bellman_ford" else args[0]
    run_case(r, fname, fn, tuple(args), kw, nn, edges)
    for x in r["violations"]:
        if x["kind"] == v["kind"]:
            return x
    return r["violations"][0] if r["violations"] else None
