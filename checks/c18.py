"""C18 - job-shop schedules and VRPTW states are structurally valid and honestly scored.

Engines: E1 (instances) + E2 (every answer of the solver's random generator) for solve_job_shop and solve_vrptw;
E3 (explicit-state BFS over the exported destroy/repair operators, each operator call expanded over its RNG answers)
for the VRPTW bookkeeping."""

from __future__ import annotations

import importlib
import itertools
from math import hypot

from vf import e2
from vf.combi import digits
from vf.core import Job, new_result, viol
from vf.guard import SolverHang, too_many_hangs
from vf.guard import call as gcall
from vf.snap import freeze

LEVEL = "model_checking"
RULE = (
    "Job shop: every job list with <=3 jobs x <=2 operations (machines {0,1} and the gap set {0,2}, durations {0,1,2}), "
    "all five rules, local search off and on with max_iter 1..3 where every randrange()/choice() answer of the solver's "
    "generator is enumerated (E2), plus real seeds 0..3. VRPTW operators (E3): for every instance of a declared family "
    "(3 customers on fixed grid points, demand {1,2}, window {none,[0,2],[3,5]}, required_vehicles {1,2}, capacity {2,3}, 2 "
    "vehicles) breadth-first search from VRPState.from_problem over the 8 exported operators, every operator call expanded "
    "over all answers of its random generator, to depth 3 (4 thorough); the bookkeeping invariant, arrival-time "
    "consistency and argument immutability are evaluated in every state/transition. solve_vrptw: max_iter 1..2 with RNG "
    "answers enumerated up to 2 deviations from the default, and real seeds 0..3 at max_iter 40; the returned objective "
    "is recomputed independently. A case is non-trivial when at least one random answer was taken (job shop), when the "
    "state has a routed customer (VRP)."
)
ASSUMPTIONS = [
    "bounds: <=3 jobs x <=2 operations; 3 customers, 2 vehicles; BFS depth 3 (quick) / 4 (thorough)",
    "RNG menus: random() in {0,.25,.5,.75,1-2^-53}, sample() up to 24 ordered k-subsets, shuffle() all permutations for n<=4",
    "zero-length operations occupy an empty interval and overlap nothing",
]

# ------------------------------------------------------------------------------------------ job shop


def check_schedule(jobs, res):
    errs = []
    sched = res.solution
    if not isinstance(sched, dict):
        return [("shape", f"solution {sched!r}")]
    ends = []
    for j, job in enumerate(jobs):
        prev_end = None
        for k, (m, d) in enumerate(job):
            if (j, k) not in sched:
                return [("missing_operation", f"operation {(j, k)} has no entry")]
            s, e = sched[(j, k)]
            if e - s != d:
                errs.append(("wrong_duration", f"operation {(j, k)} scheduled {(s, e)} but lasts {d}"))
            if s < 0 or (prev_end is not None and s < prev_end):
                errs.append(("job_order", f"operation {(j, k)} starts at {s} before its predecessor ends at {prev_end}"))
            prev_end = e
            ends.append(e)
    if len(sched) != sum(len(job) for job in jobs):
        errs.append(("extra_entries", f"{len(sched)} entries for {sum(len(job) for job in jobs)} operations"))
    by_m = {}
    for j, job in enumerate(jobs):
        for k, (m, d) in enumerate(job):
            by_m.setdefault(m, []).append((sched[(j, k)], (j, k)))
    for m, ops in by_m.items():
        for (a, ka), (b, kb) in itertools.combinations(ops, 2):
            if max(a[0], b[0]) < min(a[1], b[1]):
                errs.append(("machine_overlap", f"operations {ka} {a} and {kb} {b} overlap on machine {m}"))
                break
    if ends and res.objective != max(ends):
        errs.append(("objective_not_makespan", f"objective {res.objective}, latest end {max(ends)}"))
    return errs


JS_OPS = [(m, d) for m in (0, 1) for d in (0, 1, 2)]
JS_JOBS = [(a,) for a in JS_OPS] + [(a, b) for a in JS_OPS for b in JS_OPS]
RULES = ("fifo", "spt", "lpt", "mwkr", "random")


def run_jobshop_instance(r, jobs, deep):
    js = importlib.import_module("solvor.job_shop")
    real_random = js.Random
    wit0 = {"jobs": [[list(o) for o in job] for job in jobs]}
    n_ops = sum(len(j) for j in jobs)
    try:
        for rule in RULES:
            if rule == "random" and n_ops > 4:
                continue
            # stop = k: an on_progress callback that asks to stop from iteration k on (progress_interval=1)
            for ls, mi, stop in ((False, 0, None),) + (((True, 1, None), (True, 2, None), (True, 3, None), (True, 2, 1), (True, 3, 1), (True, 3, 2)) if deep else ((True, 2, None), (True, 2, 1))):
                js.Random = e2.ScriptedRandom
                pkw = {} if stop is None else {"on_progress": (lambda p, stop=stop: p.iteration >= stop), "progress_interval": 1}

                def run(script):
                    try:
                        return gcall(lambda: js.solve_job_shop([list(j) for j in jobs], rule=rule, local_search=ls, max_iter=mi, **pkw), 5.0, 20_000_000), None
                    except SolverHang as ex:
                        return None, "nontermination"
                    except Exception as ex:  # noqa: BLE001
                        return None, f"raised {type(ex).__name__}: {ex}"

                for script, (res, err) in e2.explore(run, max_execs=2000, stats=r):
                    r["n"] += 1
                    nn = len(script.choices) - len(script.prefix) + 1
                    r["counters"]["js_states"] += nn
                    r["counters"]["transitions"] += nn if script.prefix else nn - 1
                    r["counters"]["traces"] += 1
                    if script.choices:
                        r["nontrivial"] += 1
                    wit = dict(wit0, rule=rule, local_search=ls, max_iter=mi, choices=list(script.choices), **({} if stop is None else {"stop_at": stop}))
                    if err:
                        r["outcomes"]["job_shop:" + err.split()[0]] += 1
                        r["violations"].append(viol("solve_job_shop", err.split()[0].rstrip(":"), wit, f"solve_job_shop({jobs}, rule={rule}, local_search={ls}, max_iter={mi}) with RNG answers {script.choices}: {err}"))
                        continue
                    r["outcomes"][f"job_shop:{rule}:{res.status.name}"] += 1
                    for kind, detail in check_schedule(jobs, res):
                        r["violations"].append(viol("solve_job_shop", kind, wit, f"solve_job_shop({jobs}, rule={rule}, local_search={ls}, max_iter={mi}) with RNG answers {script.choices}: {detail}"))
        js.Random = real_random
        if deep:
            for seed in (0, 1, 2, 3):
                for rule in ("spt", "random"):
                    r["n"] += 1
                    wit = dict(wit0, rule=rule, local_search=True, max_iter=20, seed=seed)
                    try:
                        a = gcall(lambda: js.solve_job_shop([list(j) for j in jobs], rule=rule, max_iter=20, seed=seed), 5.0, 20_000_000)
                        b = gcall(lambda: js.solve_job_shop([list(j) for j in jobs], rule=rule, max_iter=20, seed=seed), 5.0, 20_000_000)
                    except Exception as ex:  # noqa: BLE001
                        r["violations"].append(viol("solve_job_shop", "raised", wit, f"solve_job_shop({jobs}, rule={rule}, seed={seed}): {type(ex).__name__}: {ex}"))
                        continue
                    r["outcomes"][f"job_shop:{rule}:seeded"] += 1
                    for kind, detail in check_schedule(jobs, a):
                        r["violations"].append(viol("solve_job_shop", kind, wit, f"solve_job_shop({jobs}, rule={rule}, seed={seed}): {detail}"))
                    if (a.solution, a.objective) != (b.solution, b.objective):
                        r["violations"].append(viol("solve_job_shop", "seed_not_reproducible", wit, f"two runs with seed={seed} differ"))
    finally:
        js.Random = real_random
    if not r["samples"]:
        r["samples"].append(wit0)


def _js_chunk(params, lo, hi):
    njobs, gap, deep_mod = params
    r = new_result()
    for idx in range(lo, hi):
        ds = digits(idx, len(JS_JOBS), njobs)
        jobs = [JS_JOBS[d] for d in ds]
        if gap:
            jobs = [tuple((2 if m == 1 else m, d) for m, d in job) for job in jobs]
        run_jobshop_instance(r, jobs, deep=(idx % deep_mod == 0))
        if len(r["violations"]) >= 40 or too_many_hangs():
            r["capped"] = True
            break
    r["counters"]["states"] += r["counters"].pop("js_states", 0)
    return r


# ---------------------------------------------------------------------------------------- VRP oracle


def vrp_invariant(state, customers):
    """bookkeeping + arrival-time consistency; returns list of (kind, detail)"""
    errs = []
    n = len(customers)
    on = {c: [] for c in range(n)}
    for v, route in enumerate(state.routes):
        seen = set()
        for c in route:
            if c in seen:
                errs.append(("twice_on_route", f"customer {c} appears twice on route {v}: {route}"))
            seen.add(c)
            if c not in on:
                errs.append(("unknown_customer", f"route {v} contains {c}"))
            else:
                on[c].append(v)
    if on.get(0):
        errs.append(("depot_routed", f"the depot is on route(s) {on[0]}"))
    for c in range(1, n):
        routed = bool(on[c])
        un = c in state.unassigned
        if routed and un:
            errs.append(("both_unassigned_and_routed", f"customer {c} is in unassigned and on route(s) {on[c]}"))
        if not routed and not un:
            errs.append(("customer_lost", f"customer {c} is neither unassigned nor on a route"))
        if customers[c].required_vehicles == 1 and len(on[c]) > 1:
            errs.append(("single_vehicle_customer_on_many_routes", f"customer {c} is on routes {on[c]}"))
    if 0 in state.unassigned or any(c not in range(n) for c in state.unassigned):
        errs.append(("bad_unassigned", f"unassigned = {sorted(state.unassigned)}"))
    # arrival times: own recomputation from travel, waiting and service
    for v, route in enumerate(state.routes):
        want = []
        t = None
        prev = 0
        for c in route:
            cu = customers[c]
            d = hypot(customers[prev].x - cu.x, customers[prev].y - cu.y)
            t = d if t is None else t + d
            t = max(t, cu.tw_start)
            want.append(t)
            t += cu.service_time
            prev = c
        got = list(state.arrival_times[v])
        if len(got) != len(want) or any(abs(a - b) > 1e-9 for a, b in zip(got, want)):
            errs.append(("stale_arrival_times", f"route {v} = {route}: arrival_times {got}, recomputed {want}"))
    return errs


def own_objective(state, customers, vehicles, weights=None):
    dist = 0.0
    used = 0
    tw = 0.0
    cap = 0.0
    arr = {}
    for v, route in enumerate(state.routes):
        if route:
            used += 1
        t = None
        prev = 0
        load = 0.0
        for c in route:
            cu = customers[c]
            d = hypot(customers[prev].x - cu.x, customers[prev].y - cu.y)
            dist += d
            t = d if t is None else t + d
            t = max(t, cu.tw_start)
            arr.setdefault(c, []).append(t)
            if t > cu.tw_end:
                tw += t - cu.tw_end
            t += cu.service_time
            load += cu.demand
            prev = c
        if route:
            dist += hypot(customers[prev].x - customers[0].x, customers[prev].y - customers[0].y)
        if load > vehicles[v].capacity:
            cap += load - vehicles[v].capacity
    sync = 0.0
    for c, cu in enumerate(customers):
        if cu.required_vehicles > 1:
            ts = arr.get(c, [])
            if len(ts) < cu.required_vehicles:
                sync += (cu.required_vehicles - len(ts)) * 1000.0
            elif len(ts) > 1:
                sync += max(ts) - min(ts)
    w = dict(distance_weight=1.0, vehicle_weight=0.0, tw_penalty=1000.0, capacity_penalty=1000.0, sync_penalty=10000.0)
    w.update(weights or {})
    return w["distance_weight"] * dist + w["vehicle_weight"] * used + w["tw_penalty"] * tw + w["capacity_penalty"] * cap + w["sync_penalty"] * sync + 100000.0 * len(state.unassigned)


# objective weights as the caller may set them, zero included (a zero weight switches a term off)
WEIGHTS = (dict(tw_penalty=0.0), dict(capacity_penalty=0.0, sync_penalty=0.0), dict(distance_weight=0.5, vehicle_weight=2.0, tw_penalty=10.0))


N_VEHICLES = [2]
POS = ((1.0, 0.0), (0.0, 1.0), (1.0, 1.0))
# geometry 1: two customers at one address on the way past the third, no service times (arrival times tie exactly)
POS_COLOCATED = ((2.0, 0.0), (2.0, 0.0), (1.0, 0.0))
GEOMETRY = [0]
WIN = ((0.0, float("inf")), (0.0, 2.0), (3.0, 5.0))


def make_instance(code):
    """code -> (customers incl. depot, vehicles); per customer: demand {1,2} x window (3) x required {1,2}; capacity {2,3}"""
    vrp = importlib.import_module("solvor.vrp")
    cap = (2.0, 3.0)[code % 2]
    k = code // 2
    custs = [vrp.Customer(0, 0.0, 0.0)]
    for i in range(3):
        d = k % 12
        k //= 12
        demand = (1.0, 2.0)[d % 2]
        win = WIN[(d // 2) % 3]
        req = (1, 2)[d // 6]
        if GEOMETRY[0] == 1:
            custs.append(vrp.Customer(i + 1, POS_COLOCATED[i][0], POS_COLOCATED[i][1], demand, win[0], win[1], 0.0, req))
        else:
            custs.append(vrp.Customer(i + 1, POS[i][0], POS[i][1], demand, win[0], win[1], float(i % 2), req))
    vehicles = [vrp.Vehicle(i, cap) for i in range(N_VEHICLES[0])]
    return custs, vehicles


def canon(state):
    return (
        tuple(tuple(r) for r in state.routes),
        frozenset(state.unassigned),
        tuple(tuple(round(a, 9) for a in t) for t in state.arrival_times),
        tuple(sorted((k, tuple(sorted(v))) for k, v in state.sync_assignments.items())),
    )


def operators(vrp):
    return [
        ("random_removal", lambda s, g: vrp.random_removal(s, g, 0.3)),
        ("worst_removal", lambda s, g: vrp.worst_removal(s, g, 0.3)),
        ("related_removal", lambda s, g: vrp.related_removal(s, g, 0.4)),
        ("route_removal", lambda s, g: vrp.route_removal(s, g)),
        ("route_removal2", lambda s, g: vrp.route_removal(s, g, 2)),
        ("sync_removal", lambda s, g: vrp.sync_removal(s, g)),
        ("greedy_insertion", lambda s, g: vrp.greedy_insertion(s, g)),
        ("regret_insertion2", lambda s, g: vrp.regret_insertion(s, g, 2)),
        ("regret_insertion3", lambda s, g: vrp.regret_insertion(s, g, 3)),
        ("sync_aware_insertion", lambda s, g: vrp.sync_aware_insertion(s, g)),
    ]


def vrp_bfs(r, code, depth):
    vrp = importlib.import_module("solvor.vrp")
    customers, vehicles = make_instance(code)
    init = vrp.VRPState.from_problem(customers, vehicles)
    ops = operators(vrp)
    seen = {canon(init): ()}
    frontier = [(init, ())]
    wit0 = {"instance_code": code, "customers": [[c.id, c.x, c.y, c.demand, c.tw_start, c.tw_end if c.tw_end != float("inf") else "inf", c.service_time, c.required_vehicles] for c in customers], "capacity": vehicles[0].capacity, "vehicles": len(vehicles)}
    for e in vrp_invariant(init, customers):
        r["violations"].append(viol("VRPState.from_problem", e[0], dict(wit0, history=[]), f"initial state: {e[1]}"))
    for level in range(depth):
        nxt = []
        for state, hist in frontier:
            before = freeze(state)
            for name, op in ops:

                def run(script, op=op, state=state):
                    try:
                        return gcall(lambda: op(state, e2.ScriptedRandom()), 5.0, 20_000_000), None
                    except SolverHang:
                        return None, "nontermination"
                    except Exception as ex:  # noqa: BLE001
                        return None, f"raised {type(ex).__name__}: {ex}"

                for script, (new, err) in e2.explore(run, max_execs=400, stats=r):
                    r["n"] += 1
                    r["counters"]["transitions"] += 1
                    h2 = hist + ((name, tuple(script.choices)),)
                    wit = dict(wit0, history=[[n_, list(c)] for n_, c in h2])
                    if err:
                        r["outcomes"][f"{name}:{err.split()[0]}"] += 1
                        r["violations"].append(viol(name, err.split()[0].rstrip(":"), wit, f"instance {code}, history {h2}: {err}"))
                        continue
                    if freeze(state) != before:
                        r["violations"].append(viol(name, "argument_mutated", wit, f"instance {code}, history {h2}: the operator changed the state it was given"))
                        before = freeze(state)
                    errs = vrp_invariant(new, customers)
                    if not errs and hasattr(vrp, "vrp_objective"):
                        got, want = vrp.vrp_objective(new), own_objective(new, customers, vehicles)
                        if abs(got - want) > 1e-6 * (1 + abs(want)):
                            errs.append(("objective_mismatch", f"vrp_objective(state) = {got}, weighted sum recomputed from routes/unassigned = {want}; routes {new.routes}, unassigned {sorted(new.unassigned)}"))
                    r["outcomes"][f"{name}:{'ok' if not errs else errs[0][0]}"] += 1
                    if any(new.routes):
                        r["nontrivial"] += 1
                    for kind, detail in errs[:2]:
                        r["violations"].append(viol(name, kind, wit, f"instance {code}, history {[n_ for n_, _ in h2]} (RNG answers {[list(c) for _, c in h2]}): {detail}"))
                    if errs:
                        continue  # do not search on from a broken state: the shortest history is the useful one
                    k = canon(new)
                    if k not in seen:
                        seen[k] = h2
                        nxt.append((new, h2))
        frontier = nxt
        if len(r["violations"]) >= 10:
            break
    r["counters"]["states"] += len(seen)
    r["counters"]["traces"] += len(seen)
    if not r["samples"]:
        some = list(seen.values())
        r["samples"].append(dict(wit0, history=[[n_, list(c)] for n_, c in some[len(some) // 2]]))


def _vrp_chunk(params, lo, hi):
    depth, off, stride = params[:3]
    N_VEHICLES[0] = params[3] if len(params) > 3 else 2
    GEOMETRY[0] = params[4] if len(params) > 4 else 0
    r = new_result()
    for idx in range(lo, hi):
        vrp_bfs(r, off + idx * stride, depth)
        if len(r["violations"]) >= 20 or too_many_hangs():
            r["capped"] = True
            break
    return r


# ---------------------------------------------------------------------------------------- solve_vrptw


def _solve_chunk(params, lo, hi):
    vrp = importlib.import_module("solvor.vrp")
    lns = importlib.import_module("solvor.lns")
    stride, scripted = params
    N_VEHICLES[0] = 2
    GEOMETRY[0] = 0
    r = new_result()
    real = (vrp.Random, lns.Random)
    try:
        for idx in range(lo, hi):
            code = idx * stride
            customers, vehicles = make_instance(code)
            wit0 = {"instance_code": code}

            def judge(res, tag, wit, weights=None):
                st = res.solution
                errs = vrp_invariant(st, customers)
                want = own_objective(st, customers, vehicles, weights)
                if abs(want - res.objective) > 1e-6 * (1 + abs(want)):
                    errs.append(("objective_mismatch", f"objective {res.objective}, weighted sum recomputed from the returned state {want}"))
                r["outcomes"][f"solve_vrptw:{tag}:{'ok' if not errs else errs[0][0]}"] += 1
                for kind, detail in errs[:2]:
                    r["violations"].append(viol("solve_vrptw", kind, wit, f"solve_vrptw(instance {code}, {wit}): {detail}"))

            if scripted:
                vrp.Random = e2.ScriptedRandom
                lns.Random = e2.ScriptedRandom
                for mi in (1, 2):

                    def run(script, mi=mi):
                        try:
                            return gcall(lambda: vrp.solve_vrptw(customers[1:], vehicles, max_iter=mi, seed=0), 10.0, 50_000_000), None
                        except SolverHang:
                            return None, "nontermination"
                        except Exception as ex:  # noqa: BLE001
                            return None, f"raised {type(ex).__name__}: {ex}"

                    for script, (res, err) in e2.explore(run, max_dev=2, max_execs=1500, stats=r):
                        r["n"] += 1
                        nn = len(script.choices) - len(script.prefix) + 1
                        r["counters"]["sv_states"] += nn
                        r["counters"]["transitions"] += nn if script.prefix else nn - 1
                        r["counters"]["traces"] += 1
                        r["nontrivial"] += 1
                        wit = dict(wit0, max_iter=mi, choices=list(script.choices))
                        if err:
                            r["violations"].append(viol("solve_vrptw", err.split()[0].rstrip(":"), wit, f"solve_vrptw(instance {code}, max_iter={mi}) RNG answers {script.choices}: {err}"))
                            continue
                        judge(res, f"scripted{mi}", wit)
                vrp.Random, lns.Random = real
            else:
                for seed in (0, 1, 2, 3):
                    r["n"] += 1
                    r["nontrivial"] += 1
                    wit = dict(wit0, max_iter=40, seed=seed)
                    try:
                        res = gcall(lambda: vrp.solve_vrptw(customers[1:], vehicles, max_iter=40, seed=seed), 10.0, 100_000_000)
                        res2 = gcall(lambda: vrp.solve_vrptw(customers[1:], vehicles, max_iter=40, seed=seed), 10.0, 100_000_000)
                    except Exception as ex:  # noqa: BLE001
                        r["violations"].append(viol("solve_vrptw", "raised", wit, f"solve_vrptw(instance {code}, seed={seed}): {type(ex).__name__}: {ex}"))
                        continue
                    judge(res, "seeded", wit)
                    for stop_at in (3, 11):
                        # early stop through the progress callback: the reported objective must still be that of the returned state
                        try:
                            rs = gcall(lambda: vrp.solve_vrptw(customers[1:], vehicles, max_iter=40, seed=seed, on_progress=lambda p_: p_.iteration >= stop_at, progress_interval=1), 10.0, 100_000_000)
                            r["n"] += 1
                            judge(rs, f"stopped{stop_at}", dict(wit, stop_at=stop_at))
                        except Exception as ex:  # noqa: BLE001
                            r["violations"].append(viol("solve_vrptw", "raised", dict(wit, stop_at=stop_at), f"solve_vrptw(instance {code}, seed={seed}, stop at {stop_at}): {type(ex).__name__}: {ex}"))
                    if seed == 0:
                        for wi, wts in enumerate(WEIGHTS):
                            try:
                                rw = gcall(lambda: vrp.solve_vrptw(customers[1:], vehicles, max_iter=40, seed=seed, **wts), 10.0, 100_000_000)
                                r["n"] += 1
                                judge(rw, f"weights{wi}", dict(wit, weights=wts), wts)
                            except Exception as ex:  # noqa: BLE001
                                r["violations"].append(viol("solve_vrptw", "raised", dict(wit, weights=wts), f"solve_vrptw(instance {code}, seed={seed}, {wts}): {type(ex).__name__}: {ex}"))
                    if canon(res.solution) != canon(res2.solution) or res.objective != res2.objective:
                        r["violations"].append(viol("solve_vrptw", "seed_not_reproducible", wit, f"two runs with seed={seed} differ"))
            if not r["samples"]:
                r["samples"].append(wit0)
            if len(r["violations"]) >= 20 or too_many_hangs():
                r["capped"] = True
                break
    finally:
        vrp.Random, lns.Random = real
    r["counters"]["states"] += r["counters"].pop("sv_states", 0) + (0 if scripted else r["n"])
    if not scripted:
        r["counters"]["transitions"] += r["n"]
    return r


N_INST = 2 * 12**3


def jobs(tier, seed):
    q = tier == "quick"
    js = []
    js.append(Job("jobshop_1job", len(JS_JOBS), _js_chunk, (1, False, 1), describe="all 1-job instances, all rules, max_iter 0..3, every RNG answer"))
    js.append(Job("jobshop_2jobs", len(JS_JOBS) ** 2, _js_chunk, (2, False, 1), describe="all 2-job instances"))
    js.append(Job("jobshop_2jobs_machine_gap", len(JS_JOBS) ** 2, _js_chunk, (2, True, 2), describe="machine ids {0,2}"))
    js.append(Job("jobshop_3jobs", len(JS_JOBS) ** 3, _js_chunk, (3, False, 16 if q else 2), describe="all 3-job instances; every 16th (2nd) with the deep menu (max_iter 1..3, seeds)"))
    stride = 7 if q else 1
    depth = 3 if q else 4
    js.append(Job(f"vrp_operator_bfs_depth{depth}", (N_INST + stride - 1 - (seed % stride)) // stride if q else N_INST, _vrp_chunk, (depth, seed % stride if q else 0, stride), chunk=4, describe=f"BFS over the exported operators from VRPState.from_problem; instances code = offset + k*{stride} of the {N_INST}-instance family (offset rotates with VERIF_SEED)"))
    st3 = 97 if q else 11
    js.append(Job(f"vrp_operator_bfs_3vehicles_depth{depth}", N_INST // st3, _vrp_chunk, (depth, seed % st3, st3, 3), chunk=2, describe="same BFS with three vehicles (a customer can end up on a vehicle outside a stale sync assignment)"))
    stc = 61 if q else 7
    js.append(Job(f"vrp_operator_bfs_colocated_depth{depth}", N_INST // stc, _vrp_chunk, (depth, seed % stc, stc, 2, 1), chunk=2, describe="same BFS on the geometry with two customers at one address and no service times (exact ties between consecutive arrival times)"))
    sst = 24 if q else 4
    js.append(Job("solve_vrptw_scripted", N_INST // sst, _solve_chunk, (sst, True), chunk=2, describe="solve_vrptw max_iter 1..2, RNG answers enumerated to 2 deviations"))
    js.append(Job("solve_vrptw_seeded", N_INST // sst, _solve_chunk, (sst, False), chunk=4, describe="solve_vrptw max_iter 40, seeds 0..3, run twice"))
    return js


def replay(v):
    w = v["witness"]
    r = new_result()
    N_VEHICLES[0] = len(w["customers"]) and (3 if w.get("vehicles") == 3 else 2) if "customers" in w else 2
    # the geometry is recognisable from the recorded customers: two customers at one address
    GEOMETRY[0] = 1 if "customers" in w and len(w["customers"]) > 2 and w["customers"][1][1:3] == w["customers"][2][1:3] else 0
    if v["function"] == "solve_job_shop":
        run_jobshop_instance(r, [tuple(tuple(o) for o in job) for job in w["jobs"]], True)
    elif v["function"] == "solve_vrptw":
        rr = _solve_chunk((w["instance_code"] or 1, "choices" in w), 1 if w["instance_code"] else 0, 2 if w["instance_code"] else 1)
        r = rr
    else:
        vrp_bfs(r, w["instance_code"], max(1, len(w.get("history", []))))
    for x in r["violations"]:
        if x["function"] == v["function"] and x["kind"] == v["kind"]:
            return x
    return None
