"""C17 - cutting-stock plans of solve_cg / solve_bp meet every demand; OPTIMAL is minimal (engine E1 + fuel)."""

from __future__ import annotations

import itertools

from vf.combi import digits
from vf.core import Job, new_result, viol
from vf.guard import SolverHang, too_many_hangs
from vf.guard import call as gcall

LEVEL = "exploration"
RULE = (
    "E1: every cutting-stock instance with roll width W in 3..8, 1-3 piece sizes in 1..W (equal sizes allowed) and demands "
    "in {0..3}^m for solve_cg; W in 3..6 (3..5 for three piece types) for solve_bp; custom mode: every covering subset of "
    "<=3 of the maximal patterns as initial columns with an exact enumerating pricing function. Oracle: exact minimum "
    "number of rolls by dynamic programming over remaining-demand vectors with all feasible patterns. Non-trivial = the "
    "optimum is smaller than the number of rolls of the one-piece-type-per-roll plan (mixing patterns matters)."
)
ASSUMPTIONS = [
    "integer sizes and demands; W <= 8 (10) with demands <= 3 for three piece types, W <= 16 with demands <= 4 for two (exact DP oracle)",
    "an exception is a violation only in cutting-stock mode (valid input by construction); custom-mode column sets are "
    "restricted to sets that cover every demanded piece",
    "termination: SIGALRM (20 s) then JUMP-event fuel",
]


def feasible_patterns(sizes, W):
    m = len(sizes)
    out = []
    for p in itertools.product(*[range(W // s + 1) for s in sizes]):
        if any(p) and sum(a * s for a, s in zip(p, sizes)) <= W:
            out.append(p)
    return out


def maximal_patterns(sizes, W):
    pats = feasible_patterns(sizes, W)
    mx = []
    for p in pats:
        if not any(q != p and all(a <= b for a, b in zip(p, q)) for q in pats):
            mx.append(p)
    return mx


def min_rolls(sizes, W, demands):
    pats = feasible_patterns(sizes, W)
    start = tuple(demands)
    if not any(start):
        return 0
    dist = {start: 0}
    frontier = [start]
    while frontier:
        nxt = []
        for st in frontier:
            for p in pats:
                ns = tuple(max(0, a - b) for a, b in zip(st, p))
                if ns not in dist:
                    dist[ns] = dist[st] + 1
                    if not any(ns):
                        return dist[ns]
                    nxt.append(ns)
        frontier = nxt
    return None


def judge_plan(res, sizes, W, demands, opt):
    from solvor.types import Status

    errs = []
    if res.status not in (Status.OPTIMAL, Status.FEASIBLE):
        return errs
    plan = res.solution
    if not isinstance(plan, dict):
        return [("shape", f"solution {plan!r}")]
    total = 0
    produced = [0] * len(sizes)
    for pat, cnt in plan.items():
        if len(pat) != len(sizes) or any((not isinstance(a, int)) or a < 0 for a in pat):
            return [("bad_pattern", f"pattern {pat!r}")]
        if sum(a * s for a, s in zip(pat, sizes)) > W:
            errs.append(("pattern_too_wide", f"pattern {pat} needs {sum(a * s for a, s in zip(pat, sizes))} > roll width {W}"))
        if cnt != int(cnt) or cnt <= 0:
            errs.append(("bad_count", f"pattern {pat} used {cnt!r} times"))
        total += cnt
        for i, a in enumerate(pat):
            produced[i] += a * cnt
    for i, d in enumerate(demands):
        if produced[i] < d:
            errs.append(("demand_missed", f"piece {i}: produced {produced[i]} < demand {d} with status {res.status.name}; plan {plan}"))
            break
    if abs(total - res.objective) > 1e-9:
        errs.append(("objective_not_rolls", f"objective {res.objective}, plan uses {total} rolls"))
    if not errs:
        if res.objective < opt - 1e-9:
            errs.append(("below_minimum", f"objective {res.objective} below the true minimum {opt}"))
        if res.status == Status.OPTIMAL and abs(res.objective - opt) > 1e-9:
            errs.append(("optimal_but_not_minimal", f"status OPTIMAL with {res.objective:g} rolls, the true minimum is {opt}; plan {plan}"))
    return errs


LIMITS = [{"max_iter": 0}, {"max_iter": 1}, {"max_iter": 2}, {"stop": 0}, {"stop": 1}, {"max_iter": 1, "max_nodes": 1}, {"max_nodes": 2}]


def run_instance(r, sizes, W, demands, solvers, limits=False, base=None, opt=None, guard=(20.0, 200_000_000)):
    from solvor.bp import solve_bp
    from solvor.cg import solve_cg

    known = opt
    if opt is None:
        opt = min_rolls(sizes, W, demands)
    single = sum(-(-d // (W // s)) for d, s in zip(demands, sizes))
    nontrivial = opt < single
    wit00 = {"roll_width": W, "piece_sizes": list(sizes), "demands": list(demands)}
    if known is not None:
        wit00["optimum_by_construction"] = known  # replay uses it too: the search-based oracle does not reach these sizes
    runs = [(name, dict(base or {})) for name in solvers]
    if limits:
        runs += [(name, lim) for name in solvers for lim in LIMITS if not ("max_nodes" in lim and name == "solve_cg")]
    for name, lim in runs:
        fn = solve_cg if name == "solve_cg" else solve_bp
        kw = {k: v for k, v in lim.items() if k != "stop"}
        if "stop" in lim:
            kw["on_progress"] = lambda p_, k_=lim["stop"]: p_.iteration >= k_
            kw["progress_interval"] = 1
        wit0 = dict(wit00, limits=lim) if lim else wit00
        r["n"] += 1
        if nontrivial:
            r["nontrivial"] += 1
        try:
            res = gcall(lambda: fn(list(demands), roll_width=W, piece_sizes=list(sizes), **kw), *guard)
        except SolverHang as ex:
            r["outcomes"][name + ":hang"] += 1
            r["counters"]["hangs"] += 1
            r["violations"].append(viol(name, "nontermination", wit0, f"{name}({wit0}): {ex}"))
            continue
        except Exception as ex:  # noqa: BLE001
            r["outcomes"][name + ":raised"] += 1
            r["violations"].append(viol(name, "raised", wit0, f"{name}({wit0}): {type(ex).__name__}: {ex}"))
            continue
        r["outcomes"][f"{name}:{res.status.name}"] += 1
        for kind, detail in judge_plan(res, sizes, W, demands, opt):
            r["violations"].append(viol(name, kind, wit0, f"{name}({wit0}): {detail}"))
    if not r["samples"]:
        r["samples"].append(wit0)


def _cs_chunk(params, lo, hi):
    """index = size_code * D^m + demand_code   (demands 0..D-1, D = 4 unless given)"""
    W, m, solvers = params[:3]
    D = params[3] if len(params) > 3 else 4
    limits = len(params) > 4 and params[4] == "limits"
    r = new_result()
    for idx in range(lo, hi):
        demands = digits(idx % D**m, D, m)
        sizes = [1 + d for d in digits(idx // D**m, W, m)]
        run_instance(r, sizes, W, demands, solvers, limits)
        if len(r["violations"]) >= 40 or r["counters"]["hangs"] >= 2 or too_many_hangs():
            r["capped"] = True
            break
    return r


def _cs_block(params, lo, hi):
    off = params[4]
    return _cs_chunk(params[:4], lo + off, hi + off)


def wide_cases(full=True):
    """rolls wider than 1000 with two piece sizes around a third of the width (patterns of three pieces that fill the roll
    exactly or miss by one or two units), demands over {1,2,3,6}^2"""
    out = []
    for W in (1500, 1501, 1503, 2000) if full else (1500, 2000):
        t = W // 3
        for a in range(t - 2, t + 3):
            for b in range(a, t + 3):
                for d1 in (1, 2, 3, 6):
                    for d2 in (1, 2, 3, 6):
                        if full or (d1 <= 3 and d2 <= 3) or d1 == d2:
                            out.append((W, (a, b), (d1, d2)))
    return out


def _wide_chunk(params, lo, hi):
    cases = wide_cases(params)
    r = new_result()
    for idx in range(lo, hi):
        W, sizes, demands = cases[idx]
        run_instance(r, list(sizes), W, list(demands), ("solve_cg",))
        if max(demands) <= 3:  # every node re-prices over a table of 100 x width cells: small trees only
            run_instance(r, list(sizes), W, list(demands), ("solve_bp",), base={"max_iter": 10, "max_nodes": 5})
        if len(r["violations"]) >= 40 or r["counters"]["hangs"] >= 2 or too_many_hangs():
            r["capped"] = True
            break
    return r


def _partitions(total, parts, least):
    if parts == 1:
        return [(total,)] if total >= least else []
    out = []
    for first in range(least, total // parts + 1):
        out += [(first,) + rest for rest in _partitions(total - first, parts - 1, first)]
    return out


PERFECT_PARTS = [tuple(reversed(p)) for k in (3, 4) for p in _partitions(16, k, 2)]


def perfect_cases():
    """two rolls of width 16 cut into 3-4 pieces each (every piece >= 2): the pieces, each demanded once, can be cut from two
    rolls by construction; 6-8 piece types with unit demands give highly degenerate master LPs"""
    return [(PERFECT_PARTS[i], PERFECT_PARTS[j]) for i in range(len(PERFECT_PARTS)) for j in range(i, len(PERFECT_PARTS))]


def _perfect_chunk(params, lo, hi):
    off, stride = params  # block = the cases off, off+stride, off+2*stride, ... (every residue class holds pairs of all shapes)
    cases = perfect_cases()
    r = new_result()
    for k in range(lo, hi):
        a, b = cases[off + k * stride]
        sizes = list(a) + list(b)
        run_instance(r, sizes, 16, [1] * len(sizes), ("solve_bp",), base={"max_iter": 60, "max_nodes": 20}, opt=2)
        if len(r["violations"]) >= 40 or r["counters"]["hangs"] >= 2 or too_many_hangs():
            r["capped"] = True
            break
    return r


def sweep_cases():
    """(sizes, demands): two piece sizes in 1..7, demands (1,1), (2,2), (3,1)"""
    return [((a, b), d) for a in range(1, 8) for b in range(a, 8) for d in ((1, 1), (2, 2), (3, 1))]


def _sweep_chunk(params, lo, hi):
    """the same order solved for every roll width from the largest piece up to 12 and back down, all in one process and in
    that order (solve_cg, then solve_bp): every answer is judged on its own, so nothing may be carried from one width to
    the next"""
    cases = sweep_cases()
    r = new_result()
    for idx in range(lo, hi):
        sizes, demands = cases[idx]
        widths = list(range(max(sizes), 13))
        for solver in ("solve_cg", "solve_bp"):
            for W in widths + widths[::-1]:
                run_instance(r, list(sizes), W, list(demands), (solver,), base={"max_iter": 60} if solver == "solve_bp" else None)
        if len(r["violations"]) >= 40 or r["counters"]["hangs"] >= 2 or too_many_hangs():
            r["capped"] = True
            break
    return r


def _perfect_cg_chunk(params, lo, hi):
    """solve_cg on every case of the perfect-roll family, unit demands: two rolls suffice by construction and the total
    length is 32, so the minimum is exactly 2 (no search needed for the oracle)"""
    cases = perfect_cases()
    r = new_result()
    for idx in range(lo, hi):
        a, b = cases[idx]
        sizes = list(a) + list(b)
        run_instance(r, sizes, 16, [1] * len(sizes), ("solve_cg",), opt=2)
        if len(r["violations"]) >= 40 or r["counters"]["hangs"] >= 2 or too_many_hangs():
            r["capped"] = True
            break
    return r


def many_type_cases():
    """(W, sizes, demands, k): k rolls of width W cut exactly into two or three pieces of pairwise different sizes (13-20
    piece types), each piece demanded once or twice: the total length is k*W (2k*W), so k (2k) rolls are necessary, and
    sufficient by construction; the LP value is that integer too"""
    out = []
    for W, cuts in (
        (44, [(12, 32), (13, 31), (14, 30), (15, 29), (16, 28), (17, 27), (18, 26)]),
        (45, [(10 + 2 * i, 35 - 2 * i) for i in range(8)]),
        (44, [(20, 24), (19, 25), (9, 12, 23), (10, 13, 21), (8, 14, 22), (7, 11, 26), (15, 29)]),
        (29, [(14, 15), (11, 18), (13, 16), (12, 17), (10, 19), (4, 5, 20), (6, 2, 21)]),
        (60, [(7 + i, 53 - i) for i in range(10)]),
    ):
        sizes = [x for c in cuts for x in c]
        assert len(set(sizes)) == len(sizes) and all(sum(c) == W for c in cuts)
        for mult in (1, 2):
            out.append((W, sizes, [mult] * len(sizes), mult * len(cuts)))
        out.append((W, sorted(sizes), [1] * len(sizes), len(cuts)))  # the same order with the piece types listed smallest first
    return out


def _many_types_chunk(params, lo, hi):
    cases = many_type_cases()
    r = new_result()
    for idx in range(lo, hi):
        W, sizes, demands, k = cases[idx // 2]
        if idx % 2 == 0:
            run_instance(r, list(sizes), W, list(demands), ("solve_cg",), opt=k)
        elif W <= 45 and max(demands) == 1 and sizes != sorted(sizes):  # solve_bp costs seconds per case here: the three smallest only
            # the 18-type case needs 1.7e8 loop back-edges (8 s): a budget with room to spare
            run_instance(r, list(sizes), W, list(demands), ("solve_bp",), base={"max_iter": 45, "max_nodes": 30}, opt=k, guard=(120.0, 1_500_000_000))
        if len(r["violations"]) >= 40 or r["counters"]["hangs"] >= 2 or too_many_hangs():
            r["capped"] = True
            break
    return r


def _cs_sparse_chunk(params, lo, hi):
    """three piece sizes in 1..W, demands from {1,3,5}^3: index = size_code * 27 + demand_code (+ offset)"""
    W, off = params[:2]
    fns = params[2] if len(params) > 2 else ("solve_cg",)
    alpha = params[3] if len(params) > 3 else (1, 3, 5)
    r = new_result()
    for idx in range(lo + off, hi + off):
        demands = [alpha[d] for d in digits(idx % 27, 3, 3)]
        sizes = [1 + d for d in digits(idx // 27, W, 3)]
        # solve_bp re-prices up to max_iter times per node; the default of 1000 makes single instances take half a minute
        # (slow, not wrong), so this family bounds the rounds per node - OPTIMAL claims are judged as always
        run_instance(r, sizes, W, demands, fns, base={"max_iter": 60} if "solve_bp" in fns else None)
        if len(r["violations"]) >= 40 or r["counters"]["hangs"] >= 2 or too_many_hangs():
            r["capped"] = True
            break
    return r


def custom_cases(W, sizes):
    """every covering subset (size <= 3) of the maximal patterns"""
    mx = maximal_patterns(sizes, W)
    out = []
    for k in (1, 2, 3):
        for sub in itertools.combinations(mx, k):
            if all(any(p[i] > 0 for p in sub) for i in range(len(sizes))):
                out.append(sub)
    return out


def _custom_chunk(params, lo, hi):
    from solvor.bp import solve_bp
    from solvor.cg import solve_cg

    cases = params
    r = new_result()
    for idx in range(lo, hi):
        W, sizes, demands, cols = cases[idx]
        pats = feasible_patterns(sizes, W)

        def pricing(duals, pats=pats):
            best, best_rc = None, 0.0
            for p in pats:
                rc = 1.0 - sum(d * a for d, a in zip(duals, p))
                if rc < best_rc - 1e-12:
                    best, best_rc = p, rc
            return best, best_rc

        opt = min_rolls(sizes, W, demands)
        wit0 = {"roll_width": W, "piece_sizes": list(sizes), "demands": list(demands), "initial_columns": [list(c) for c in cols]}
        for name, fn in (("solve_cg", solve_cg), ("solve_bp", solve_bp)):
            r["n"] += 1
            r["nontrivial"] += 1
            try:
                res = gcall(lambda: fn(list(demands), pricing_fn=pricing, initial_columns=[list(c) for c in cols]), 20.0, 200_000_000)
            except SolverHang as ex:
                r["counters"]["hangs"] += 1
                r["outcomes"][name + "/custom:hang"] += 1
                r["violations"].append(viol(name, "nontermination", wit0, f"{name}(custom {wit0}): {ex}"))
                continue
            except Exception as ex:  # noqa: BLE001
                r["outcomes"][name + "/custom:raised"] += 1
                r["counters"]["custom_mode_exceptions_not_judged"] += 1
                continue
            r["outcomes"][f"{name}/custom:{res.status.name}"] += 1
            for kind, detail in judge_plan(res, sizes, W, demands, opt):
                r["violations"].append(viol(name, kind, dict(wit0, custom=True), f"{name}(custom {wit0}): {detail}"))
        if not r["samples"]:
            r["samples"].append(wit0)
        if len(r["violations"]) >= 40 or r["counters"]["hangs"] >= 2 or too_many_hangs():
            r["capped"] = True
            break
    return r


def _custom_list(tier):
    cases = []
    for W in (4, 5, 6):
        for sizes in itertools.combinations(range(1, W + 1), 2):
            for demands in itertools.product((1, 2, 3), repeat=2):
                for cols in custom_cases(W, sizes):
                    cases.append((W, sizes, demands, cols))
    if tier == "thorough":
        for W in (5, 6):
            for sizes in itertools.combinations(range(1, W + 1), 3):
                for demands in itertools.product((1, 3), repeat=3):
                    for cols in custom_cases(W, sizes):
                        cases.append((W, sizes, demands, cols))
    return cases


def jobs(tier, seed):
    js = []
    wmax = 10 if tier == "thorough" else 8
    for W in range(3, wmax + 1):
        for m in (1, 2, 3):
            js.append(Job(f"cg_W{W}_m{m}", W**m * 4**m, _cs_chunk, (W, m, ("solve_cg",)), describe="solve_cg: all size tuples in 1..W, demands 0..3"))
    for W in range(3, (8 if tier == "thorough" else 6) + 1):
        for m in (1, 2, 3):
            if m == 3 and W > (6 if tier == "thorough" else 5):
                continue
            size = W**m * 4**m
            if tier == "quick" and m == 3 and W == 5:
                b = seed % 8
                lo, hi = size * b // 8, size * (b + 1) // 8
                js.append(Job(f"bp_W5_m3_block{b}of8", hi - lo, _cs_block, (W, m, ("solve_bp",), 4, lo), chunk=max(1, (hi - lo) // 256), describe="solve_bp: rotating eighth (VERIF_SEED) of the W=5, three-size instances (0.2 s per instance)"))
                continue
            js.append(Job(f"bp_W{W}_m{m}", size, _cs_chunk, (W, m, ("solve_bp",)), chunk=max(1, size // 256), describe="solve_bp: all size tuples in 1..W, demands 0..3"))
    # solve_bp with deeper trees: three sizes on rolls of width 9, demands from {2,3,5} (a node that bounds an initial
    # pattern, pricing proposing it again, both copies used by a later node)
    size9 = 9**3 * 27
    if tier == "thorough":
        js.append(Job("bp_W9_m3_demands235", size9, _cs_sparse_chunk, (9, 0, ("solve_bp",), (2, 3, 5)), chunk=max(1, size9 // 512), describe="solve_bp: three sizes in 1..9, demands from {2,3,5}^3"))
    else:
        b = seed % 32
        lo, hi = size9 * b // 32, size9 * (b + 1) // 32
        js.append(Job(f"bp_W9_m3_demands235_block{b}of32", hi - lo, _cs_sparse_chunk, (9, lo, ("solve_bp",), (2, 3, 5)), chunk=max(1, (hi - lo) // 128), describe="rotating 1/32 block (VERIF_SEED) of solve_bp: three sizes in 1..9, demands from {2,3,5}^3"))
    # limit parameters: max_iter 0/1/2, early stop through on_progress, max_nodes: a plan returned before column
    # generation converged (or before the tree is exhausted) must not be labelled OPTIMAL unless it is minimal
    for W in (3, 4, 5, 6):
        js.append(Job(f"limits_W{W}_m2", W**2 * 16, _cs_chunk, (W, 2, ("solve_cg", "solve_bp"), 4, "limits"), chunk=max(1, W**2 * 16 // 128), describe="solve_cg and solve_bp with max_iter in {0,1,2}, on_progress stop, max_nodes: two piece sizes, demands 0..3"))
    js.append(Job("limits_W5_m3_cg", 5**3 * 64, _cs_chunk, (5, 3, ("solve_cg",), 4, "limits"), describe="solve_cg with the limit menu: three piece sizes in 1..5"))
    # two piece types on wider rolls with demands 0..4: sizes sharing a factor that does not divide the width, etc.
    for W in range(9, 17):
        js.append(Job(f"cg_W{W}_m2_demands0to4", W**2 * 25, _cs_chunk, (W, 2, ("solve_cg",), 5), describe="solve_cg: two piece sizes in 1..W, demands 0..4"))
    if tier == "thorough":
        for W in range(11, 14):
            js.append(Job(f"cg_W{W}_m3", W**3 * 64, _cs_chunk, (W, 3, ("solve_cg",)), describe="solve_cg: three piece sizes in 1..W, demands 0..3"))
        for W in range(7, 13):
            js.append(Job(f"bp_W{W}_m2_demands0to4", W**2 * 25, _cs_chunk, (W, 2, ("solve_bp",), 5), chunk=max(1, W**2 * 25 // 256), describe="solve_bp: two piece sizes, demands 0..4"))
    # wider rolls, larger demands: degenerate column-generation steps only show up here
    for W in (14, 16, 18, 20, 23):
        size = W**3 * 27
        if tier == "thorough":
            js.append(Job(f"cg_W{W}_m3_demands135", size, _cs_sparse_chunk, (W, 0), describe="solve_cg: three sizes in 1..W, demands from {1,3,5}^3"))
        else:
            nb = 16 if W < 23 else 32
            b = seed % nb
            lo, hi = size * b // nb, size * (b + 1) // nb
            js.append(Job(f"cg_W{W}_m3_demands135_block{b}of{nb}", hi - lo, _cs_sparse_chunk, (W, lo), describe=f"rotating 1/{nb} block (VERIF_SEED) of: three sizes in 1..W, demands from {{1,3,5}}^3"))
    js.append(Job("wide_rolls", len(wide_cases(tier == "thorough")), _wide_chunk, tier == "thorough", chunk=4, describe="roll widths 1500, 2000 (thorough: also 1501, 1503) with two piece sizes within 2 of a third of the width, demands over {1,2,3,6}^2; solve_cg and solve_bp (pricing on rolls wider than 1000 units)"))
    js.append(Job("width_sweeps_in_one_process", len(sweep_cases()), _sweep_chunk, None, chunk=1, describe="one order (two piece sizes in 1..7) solved for every roll width up to 12 and back, consecutively in one process; each answer judged on its own"))
    js.append(Job("perfect_rolls_13_to_20_piece_types", len(many_type_cases()) * 2, _many_types_chunk, None, chunk=1, describe="5-10 rolls of width 29-60 cut exactly into two or three pieces of pairwise different sizes (13-20 piece types), each demanded once or twice: the minimum is the number of rolls cut (volume bound, tight by construction); solve_cg and solve_bp (max_iter 45, max_nodes 30)"))
    npf = len(perfect_cases())
    js.append(Job("cg_two_perfect_rolls_W16", npf, _perfect_cg_chunk, None, describe="solve_cg on the pieces of two rolls of width 16 cut into 3-4 pieces each, unit demands (degenerate column-generation steps: the master LP value stalls before the last useful column)"))
    if tier == "thorough":
        js.append(Job("bp_two_perfect_rolls_W16", npf, _perfect_chunk, (0, 1), chunk=1, describe="solve_bp (max_iter 60, max_nodes 20) on the pieces of two rolls of width 16 cut into 3-4 pieces each, unit demands: optimum 2 by construction, degenerate masters"))
    else:
        b = seed % 4
        js.append(Job(f"bp_two_perfect_rolls_W16_class{b}mod4", len(range(b, npf, 4)), _perfect_chunk, (b, 4), chunk=1, describe="every fourth case, starting at VERIF_SEED mod 4, of: solve_bp on the pieces of two rolls of width 16 cut into 3-4 pieces each, unit demands"))
    cl = _custom_list(tier)
    js.append(Job("custom_columns", len(cl), _custom_chunk, cl, describe="custom mode: covering subsets of the maximal patterns as initial columns, exact enumerating pricing_fn; solve_cg and solve_bp"))
    return js


def replay(v):
    w = v["witness"]
    r = new_result()
    if w.get("custom") or "initial_columns" in w:
        case = (w["roll_width"], tuple(w["piece_sizes"]), tuple(w["demands"]), tuple(tuple(c) for c in w["initial_columns"]))
        rr = _custom_chunk([case], 0, 1)
        for x in rr["violations"]:
            if x["function"] == v["function"]:
                return x
        return None
    base = None
    if w.get("optimum_by_construction") is not None and isinstance(w.get("limits"), dict):
        base = dict(w["limits"])  # families with a closed-form optimum pass their budget as base configuration
    run_instance(r, w["piece_sizes"], w["roll_width"], w["demands"], (v["function"],), limits=bool(w.get("limits")) and base is None, base=base, opt=w.get("optimum_by_construction"), guard=(120.0, 1_500_000_000) if base is not None else (20.0, 200_000_000))
    r["violations"] = [x for x in r["violations"] if x["witness"].get("limits") == w.get("limits")]
    return r["violations"][0] if r["violations"] else None
