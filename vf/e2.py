"""Engine E2 - stateless exploration of the choice tree of environment answers.

A run is a deterministic function of the sequence of answers given at its *choice points* (answers of the solver's
random generator, of the user's objective function, of user callbacks). `Script` replays a prefix of answers and
answers 0 afterwards, recording every choice point with the size of its menu; `explore` is the classic stateless DFS:
run, then branch on every alternative of every point after the prefix, bounded by the number of deviations from the
default answer and by a cap on executions (a capped run is reported as such, never as exhaustive).
"""

from __future__ import annotations

import itertools


class ReplayDivergence(Exception):
    """A recorded choice does not fit the menu met while replaying: some nondeterminism is not owned."""


class Script:
    def __init__(self, prefix=()):
        self.prefix = list(prefix)
        self.choices = []  # chosen index per choice point
        self.menus = []  # menu size per choice point
        self.labels = []
        self.prefix_is_replay = False  # True when the whole run repeats a recorded execution (replay), not an exploration step

    def choose(self, n: int, label: str = "") -> int:
        pos = len(self.choices)
        if n <= 0:
            raise ValueError("empty menu")
        if pos < len(self.prefix):
            c = self.prefix[pos]
            if c >= n:
                raise ReplayDivergence(f"choice {c} at point {pos} ({label}) but the menu has {n} entries")
        else:
            c = 0
        self.choices.append(c)
        self.menus.append(n)
        self.labels.append(label)
        return c


_CURRENT = [None]


def current() -> Script:
    return _CURRENT[0]


class ScriptedRandom:
    """Drop-in for random.Random inside a solver module: every call is a choice point with a finite menu."""

    def __init__(self, seed=None):
        self.seed_given = seed

    # menus -------------------------------------------------------------------------------------
    FLOATS = (0.0, 0.25, 0.5, 0.75, 1.0 - 2.0**-53)

    def random(self):
        return self.FLOATS[current().choose(len(self.FLOATS), "random")]

    def uniform(self, a, b):
        opts = (a, (a + b) / 2.0, b)
        return opts[current().choose(3, "uniform")]

    def _int_menu(self, lo, hi):
        n = hi - lo + 1
        if n <= 8:
            return list(range(lo, hi + 1))
        return [lo, (lo + hi) // 2, hi]

    def randint(self, a, b):
        m = self._int_menu(a, b)
        return m[current().choose(len(m), "randint")]

    def randrange(self, start, stop=None):
        if stop is None:
            start, stop = 0, start
        m = self._int_menu(start, stop - 1)
        return m[current().choose(len(m), "randrange")]

    def choice(self, seq):
        n = len(seq)
        if n == 0:
            raise IndexError("Cannot choose from an empty sequence")
        idx = list(range(n)) if n <= 8 else [0, n // 2, n - 1]
        return seq[idx[current().choose(len(idx), "choice")]]

    def sample(self, population, k):
        pop = list(population)
        n = len(pop)
        if k > n or k < 0:
            raise ValueError("Sample larger than population or is negative")
        perms = list(itertools.islice(itertools.permutations(range(n), k), 25))
        if len(perms) <= 24:
            menu = perms
        else:
            menu = list(itertools.islice(itertools.combinations(range(n), k), 24))
        c = current().choose(len(menu), "sample")
        return [pop[i] for i in menu[c]]

    def shuffle(self, x):
        n = len(x)
        if n <= 1:
            return
        if n <= 4:
            menu = list(itertools.permutations(range(n)))
        else:
            menu = [tuple(range(n)), tuple(range(n - 1, -1, -1))] + [tuple((i + r) % n for i in range(n)) for r in range(1, n)]
        p = menu[current().choose(len(menu), "shuffle")]
        x[:] = [x[i] for i in p]

    def gauss(self, mu, sigma):
        opts = (mu - sigma, mu, mu + sigma)
        return opts[current().choose(3, "gauss")]

    normalvariate = gauss


def explore(run, max_dev=None, max_execs=None, stats=None):
    """Yield (choices, menus, outcome, replay_ok) for every execution of `run(script)` in the bounded tree.

    max_dev: bound on the number of non-default answers (None = unbounded, the whole tree).
    Returns through the generator's `.stats` attribute-like final tuple: use explore_all for a summary."""
    stack = [[]]
    count = 0
    while stack:
        prefix = stack.pop()
        s = Script(prefix)
        _CURRENT[0] = s
        try:
            out = run(s)
        finally:
            _CURRENT[0] = None
        count += 1
        yield s, out
        if max_execs is not None and count >= max_execs:
            if stats is not None and stack:
                stats["capped"] = True  # the tree was not exhausted: never reported as exhaustive
            return
        devs_before = sum(1 for c in s.choices[: len(prefix)] if c)
        for i in range(len(s.choices) - 1, len(prefix) - 1, -1):
            d = devs_before + sum(1 for c in s.choices[len(prefix) : i] if c)
            if max_dev is not None and d + 1 > max_dev:
                continue
            for alt in range(s.menus[i] - 1, 0, -1):
                stack.append(s.choices[:i] + [alt])


def replay(run, choices):
    s = Script(choices)
    s.prefix_is_replay = True
    _CURRENT[0] = s
    try:
        out = run(s)
    finally:
        _CURRENT[0] = None
    return s, out
