#!/bin/bash
# tools/reconfirm_suite.sh <seed-id>: re-runs the repository's suite with the stored change applied (scratch worktree) and
# rewrites "suite_with_change" / "confirmed" in its meta.json (used when the first run happened on an overloaded machine).
sid=$1; d=/verif/seeded/$sid; wt=/tmp/wtm/resuite_$sid.$$
git -C /repo worktree add -q --detach "$wt" HEAD || exit 2
git -C "$wt" apply "$d/patch.diff" || { git -C /repo worktree remove --force "$wt"; exit 2; }
if grep -q '^diff --git a/rust' "$d/patch.diff" || [ "${WITH_RUST:-0}" = 1 ]; then ov=$(/verif/tools/build_rust.sh "$wt" | tail -1); cp "$ov"/solvor/_solvor_rust*.so "$wt/solvor/"; fi
out=$(cd "$wt" && /venv/bin/python -m pytest -q -p no:cacheprovider --timeout=900 -n ${NPROC:-6} --no-cov --deselect tests/test_docs.py::test_mkdocs_builds 2>&1 | tail -15)
suite=$(echo "$out" | tail -1)
echo "$out" | grep -E "^FAILED|^ERROR" | head -3
git -C /repo worktree remove --force "$wt"
/venv/bin/python - <<PY
import json
p="$d/meta.json"; m=json.load(open(p))
s="""$suite"""
m["ran"]["suite_with_change"]=s
ok=("passed" in s and "failed" not in s and "error" not in s and m["ran"]["demo_exit_unchanged"]==0 and m["ran"]["demo_exit_changed"]!=0)
m["confirmed"]=ok
json.dump(m,open(p,"w"),indent=1)
print("$sid", "confirmed=",ok, s)
PY
