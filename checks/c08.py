"""C08 - max_flow returns a feasible flow whose value is the maximum (engine E1)."""

from __future__ import annotations

import itertools
from math import comb

from vf.combi import combinations_range, digits, fresh
from vf.core import Job, new_result, viol
from vf.guard import run as guarded_run

LEVEL = "exploration"
RULE = (
    "E1: every capacitated digraph of each declared space (all graphs on 4 labelled nodes with per-pair capacity in "
    "{absent,1,2} x every source/sink pair; all unit-capacity graphs with <=7 arcs on 5 and 6 nodes; ordered arc lists "
    "with parallel arcs; zero capacities; non-integer labels) is given to the real max_flow, in ascending and reversed "
    "adjacency order. Oracle: capacity, conservation, net sink inflow = objective, objective = min-cut capacity by "
    "enumeration of all source-side subsets. Non-trivial = the maximum flow is positive and smaller than the source's "
    "out-capacity (so augmentation choices matter); cases are distinct by the injective index decode."
)
ASSUMPTIONS = [
    "graphs with <= 6 nodes; capacities in {0,1,2}; integrality (all capacities are integers)",
    "oracle: max-flow/min-cut theorem is the one trusted fact (a feasible flow of value = some cut capacity is maximum)",
]


def mincut(n, cap, s, t):
    others = [x for x in range(n) if x != s and x != t]
    best = None
    for k in range(len(others) + 1):
        for sub in itertools.combinations(others, k):
            S = set(sub)
            S.add(s)
            c = 0
            for (u, v), w in cap.items():
                if u in S and v not in S:
                    c += w
            if best is None or c < best:
                best = c
    return best


def judge(graph, s, t, n, arcs, label=None):
    """graph: the dict passed to max_flow; arcs: list of (u,v,cap) over ints 0..n-1 (pre-label)."""
    from solvor.flow import max_flow

    lab = label or (lambda x: x)
    cap = {}
    for u, v, w in arcs:
        cap[(u, v)] = cap.get((u, v), 0) + w
    res, err = guarded_run(lambda: max_flow(graph, lab(s), lab(t)))
    if err:
        return [(err.split()[0].rstrip(":"), err)], err.split()[0], False
    errs = []
    flows = res.solution
    inv = {lab(x): x for x in range(n)}
    net = [0] * n
    if not isinstance(flows, dict):
        return [("shape", f"solution is not a flow dict: {flows!r}")], "bad", False
    for key, f in flows.items():
        try:
            u, v = inv[key[0]], inv[key[1]]
        except Exception:  # noqa: BLE001
            errs.append(("unknown_arc", f"flow on unknown arc {key!r}"))
            continue
        if f < 0 or f != int(f):
            errs.append(("bad_flow_value", f"flow {f} on arc {key}"))
        if f > cap.get((u, v), 0):
            errs.append(("capacity", f"flow {f} on arc {key} exceeds pooled capacity {cap.get((u, v), 0)}"))
        net[u] -= f
        net[v] += f
    for x in range(n):
        if x != s and x != t and net[x] != 0:
            errs.append(("conservation", f"node {lab(x)} has net inflow {net[x]}"))
    if net[t] != res.objective:
        errs.append(("objective_not_sink_inflow", f"objective {res.objective} but net flow into the sink is {net[t]}"))
    mc = mincut(n, cap, s, t)
    if res.objective != mc:
        errs.append(("not_maximum", f"objective {res.objective}, minimum cut capacity is {mc}"))
    if not res.ok:
        errs.append(("status", f"status {res.status.name}"))
    outcap = sum(w for (u, v), w in cap.items() if u == s)
    return errs, f"value{res.objective}", 0 < mc < outcap


def build(n, arcs, order, all_keys, label=None):
    lab = label or (lambda x: x)
    g = {}
    if all_keys:
        for x in range(n) if order == 0 else range(n - 1, -1, -1):
            g[lab(x)] = []
    seq = arcs if order == 0 else list(reversed(arcs))
    for u, v, w in seq:
        g.setdefault(lab(u), []).append((lab(v), w))
    return g


def _record(r, errs, label, nontrivial, wit, call):
    r["n"] += 1
    r["outcomes"][label] += 1
    if label == "nontermination":
        r["counters"]["hangs"] += 1
    if nontrivial:
        r["nontrivial"] += 1
    if not r["samples"]:
        r["samples"].append(wit)
    for kind, detail in errs:
        r["violations"].append(viol("max_flow", kind, wit, f"{call}: {detail}"))


def run_one(r, n, arcs, s, t, order, all_keys, labels=None):
    label = (lambda x: fresh(labels[x])) if labels else None
    g = build(n, arcs, order, all_keys, label)
    errs, lab_, nt = judge(g, s, t, n, arcs, label)
    wit = {"n": n, "arcs": [list(a) for a in arcs], "source": s, "sink": t, "order": order, "all_keys": all_keys, "labels": labels}
    _record(r, errs, lab_, nt, wit, f"max_flow({g}, {label(s) if label else s!r}, {label(t) if label else t!r})")


PAIRS4 = [(u, v) for u in range(4) for v in range(4) if u != v]
ST4 = [(0, 3), (3, 0), (1, 2), (2, 0)]


def _n4_chunk(params, lo, hi):
    """index = graph_code * 12 + st ; graph_code base-B digits over the 12 ordered pairs"""
    caps = params  # tuple of per-digit capacities, None = absent
    B = len(caps)
    r = new_result()
    for idx in range(lo, hi):
        st = idx % 4
        ds = digits(idx // 4, B, 12)
        arcs = [(PAIRS4[i][0], PAIRS4[i][1], caps[d]) for i, d in enumerate(ds) if caps[d] is not None]
        s, t = ST4[st]
        run_one(r, 4, arcs, s, t, (idx // 4) % 2, True)
        if len(r["violations"]) >= 40 or r["counters"]["hangs"] >= 2:
            r["capped"] = True
            break
    return r


def _unit_chunk(params, lo, hi):
    n, k, orders = params
    pairs = [(u, v) for u in range(n) for v in range(n) if u != v]
    r = new_result()
    for c in combinations_range(len(pairs), k, lo, hi):
        arcs = [(pairs[i][0], pairs[i][1], 1) for i in c]
        for order in orders:
            run_one(r, n, arcs, 0, n - 1, order, order == 1)
        if len(r["violations"]) >= 40 or r["counters"]["hangs"] >= 2:
            r["capped"] = True
            break
    return r


ARC_OPTS = [(u, v, w) for u in range(4) for v in range(4) if u != v for w in (1, 2)]


def _arclist_chunk(params, lo, hi):
    """ordered arc lists (parallel arcs occur) of exactly L arcs over 4 nodes, s=0,t=3"""
    L = params
    r = new_result()
    for idx in range(lo, hi):
        ds = digits(idx, len(ARC_OPTS), L)
        arcs = [ARC_OPTS[d] for d in ds]
        run_one(r, 4, arcs, 0, 3, 0, False)
        if len(r["violations"]) >= 40 or r["counters"]["hangs"] >= 2:
            r["capped"] = True
            break
    return r


LABELS = [["s", "a", "b", "t"], [None, "x", (1, 2), 2.5], [-1, -2, (1, (2, 3)), 1000], [10, "x", (1, 2), 2.5], [("n", 0), ("n", 1), ("n", 2), ("n", 3)], [3, 2, 1, 0]]


def _label_chunk(params, lo, hi):
    """all unit graphs on 4 nodes x label sets x (s,t) in {(0,3),(3,0),(1,2)} ; plus zero-capacity digit"""
    r = new_result()
    caps = (None, 0, 1)
    for idx in range(lo, hi):
        nl = params
        li = idx % nl
        k = idx // nl
        sti = k % 3
        ds = digits(k, 3, 12)
        arcs = [(PAIRS4[i][0], PAIRS4[i][1], caps[d]) for i, d in enumerate(ds) if caps[d] is not None]
        s, t = ((0, 3), (3, 0), (1, 2))[sti]
        run_one(r, 4, arcs, s, t, 0, False, LABELS[li])
        if len(r["violations"]) >= 40 or r["counters"]["hangs"] >= 2:
            r["capped"] = True
            break
    return r


def jobs(tier, seed):
    js = []
    js.append(Job("n4_caps_absent12_x_4st", 3**12 * 4, _n4_chunk, (None, 1, 2), describe="all digraphs on 4 nodes, each ordered pair absent/cap1/cap2, (source,sink) in {(0,3),(3,0),(1,2),(2,0)}; adjacency order alternates with graph parity"))
    for k in range(0, 8):
        js.append(Job(f"n5_unit_{k}arcs", comb(20, k), _unit_chunk, (5, k, (0, 1)), describe="unit-capacity digraphs on 5 nodes, s=0,t=4, both adjacency orders"))
    for k in range(0, 8):
        js.append(Job(f"n6_unit_{k}arcs", comb(30, k), _unit_chunk, (6, k, (0, 1) if k <= 5 else (0,)), describe="unit-capacity digraphs on 6 nodes, s=0,t=5 (contains the smallest witnesses of the residual-arc defect)"))
    for L in (1, 2, 3, 4):
        js.append(Job(f"arclists_len{L}", len(ARC_OPTS) ** L, _arclist_chunk, L, describe="ordered arc lists with parallel/anti-parallel arcs, caps {1,2}"))
    nl = len(LABELS) if tier == "thorough" else 3  # quick: strings, a mixed set in which node 0 is labelled None, -1 and -2 (equal hashes) / nested tuple / big int
    js.append(Job("n4_labels_zero_caps", 3**12 * nl, _label_chunk, nl, describe="4 nodes, pair in {absent, cap0, cap1}, string/tuple/mixed labels, (s,t) rotating over (0,3),(3,0),(1,2) with the graph code"))
    # capacities {1,2} on 6 nodes: partial cancellation on an anti-parallel pair needs a 6-node, 8-arc network
    for k in (6, 7, 8):
        size = comb(20, k) * 2**k
        if tier == "thorough":
            js.append(Job(f"n6_layered_{k}arcs_caps12", size, _layered_chunk, (k, 0), describe="6 nodes, source out-arcs only, sink in-arcs only, k arcs with capacity 1 or 2"))
        else:
            blocks = 4 if k < 8 else 16
            b = seed % blocks
            lo, hi = size * b // blocks, size * (b + 1) // blocks
            js.append(Job(f"n6_layered_{k}arcs_caps12_block{b}of{blocks}", hi - lo, _layered_chunk, (k, lo), describe="rotating block (VERIF_SEED) of the layered 6-node networks with capacities {1,2}"))
    js.append(Job("large_closed_form", len(large_networks()) * 2, _large_chunk, None, chunk=1, describe="70 disjoint paths, a chain of 40 nodes with back arcs, complete and staircase bipartite unit networks (6x6, 12x12): maximum flow known in closed form, both adjacency orders"))
    js.append(Job("n9_three_stages_232_unit", 2 ** len(ST232) * 2, _stage232_chunk, None, describe="9 nodes: source, stages of 2/3/2 nodes, sink; every subset of the 16 unit arcs, both adjacency orders"))
    tsize = 3**9 * 64
    if tier == "thorough":
        js.append(Job("n8_transport_3x3_caps12", tsize, _transport33_chunk, 0, describe="3 suppliers x 3 consumers, outer capacities {1,2}, inner arcs absent/1/2"))
    else:
        b = seed % 8
        js.append(Job(f"n8_transport_3x3_caps12_block{b}of8", tsize // 8, _transport33_chunk, b * (tsize // 8), describe="rotating 1/8 block (VERIF_SEED) of: 3 suppliers x 3 consumers, outer capacities {1,2}, inner arcs absent/1/2"))
    js.append(Job("n6_antiparallel_2out_2in_caps12", 36 * len(AP_MIDDLES) * 256, _antiparallel_chunk, None, describe="6 nodes, two source arcs, two sink arcs, four middle arcs with at least one anti-parallel pair, capacities {1,2}: the smallest shape in which an augmentation partially cancels flow on the opposite arc"))
    if tier == "thorough":
        js.append(Job("n4_caps_absent012_st03", 4**12 * 4, _n4_chunk, (None, 0, 1, 2), describe="adds zero capacities: 4^12 graphs x 12 (s,t)"))
        for k in range(8, 21):
            js.append(Job(f"n5_unit_{k}arcs", comb(20, k), _unit_chunk, (5, k, (0,)), describe="all unit graphs on 5 nodes"))
        js.append(Job("n6_unit_8arcs", comb(30, 8), _unit_chunk, (6, 8, (0,)), describe="unit graphs on 6 nodes, 8 arcs"))
    else:
        b = seed % 8
        size = comb(30, 8)
        lo, hi = size * b // 64, size * (b + 1) // 64
        js.append(Job(f"n6_unit_8arcs_block{b}of64", hi - lo, _unit8_block, lo, describe="rotating 1/64 block of the 8-arc graphs on 6 nodes"))
    return js


LAYERED = sorted([(0, x) for x in (1, 2, 3, 4)] + [(x, 5) for x in (1, 2, 3, 4)] + [(u, v) for u in (1, 2, 3, 4) for v in (1, 2, 3, 4) if u != v])


def _layered_chunk(params, lo, hi):
    """6 nodes, source 0 with outgoing arcs only, sink 5 with incoming arcs only, k of the 20 possible arcs, capacity
    of each chosen arc in {1,2}: index = comb_index * 2^k + capacity_code (offset in params)"""
    k, off = params
    per = 1 << k
    lo += off
    hi += off
    r = new_result()
    c_lo, c_hi = lo // per, (hi - 1) // per + 1
    for ci, c in enumerate(combinations_range(len(LAYERED), k, c_lo, c_hi), start=c_lo):
        for code in range(per):
            idx = ci * per + code
            if idx < lo or idx >= hi:
                continue
            arcs = [(LAYERED[c[i]][0], LAYERED[c[i]][1], 1 + (code >> i & 1)) for i in range(k)]
            run_one(r, 6, arcs, 0, 5, 0, False)
            if r["counters"]["hangs"] >= 2:
                break
        if len(r["violations"]) >= 40 or r["counters"]["hangs"] >= 2:
            r["capped"] = True
            break
    return r


_MID = [(u, v) for u in (1, 2, 3, 4) for v in (1, 2, 3, 4) if u != v]
AP_MIDDLES = [c for c in itertools.combinations(_MID, 4) if any((v, u) in c for (u, v) in c)]
AP_ENDS = list(itertools.combinations((1, 2, 3, 4), 2))


def _antiparallel_chunk(params, lo, hi):
    """6 nodes, exactly two source arcs, exactly two sink arcs, four arcs among the middle nodes containing at least one
    anti-parallel pair (the only place where an augmentation cancels flow), capacities {1,2} on all eight arcs:
    index = ((si*6 + ti)*|AP_MIDDLES| + mi)*256 + capacity_code"""
    r = new_result()
    nm = len(AP_MIDDLES)
    for idx in range(lo, hi):
        code = idx % 256
        k = idx // 256
        mid = AP_MIDDLES[k % nm]
        k //= nm
        outs, ins = AP_ENDS[k // 6], AP_ENDS[k % 6]
        pairs = sorted([(0, x) for x in outs] + [(x, 5) for x in ins] + list(mid))
        arcs = [(u, v, 1 + (code >> i & 1)) for i, (u, v) in enumerate(pairs)]
        run_one(r, 6, arcs, 0, 5, 0, False)
        if len(r["violations"]) >= 40 or r["counters"]["hangs"] >= 2:
            r["capped"] = True
            break
    return r


ST232 = [(0, 1), (0, 2)] + [(a, b) for a in (1, 2) for b in (3, 4, 5)] + [(b, c) for b in (3, 4, 5) for c in (6, 7)] + [(6, 8), (7, 8)]


def _stage232_chunk(params, lo, hi):
    """9 nodes in three stages of 2, 3 and 2 nodes between source 0 and sink 8, every subset of the 16 possible unit arcs,
    adjacency lists in arc order and reversed: augmenting paths of 4 arcs that later have to be undone over residual arcs
    at two different stages (paths of 6 and 8 arcs). index = subset*2 + order"""
    r = new_result()
    for idx in range(lo, hi):
        code = idx // 2
        arcs = [(u, v, 1) for b, (u, v) in enumerate(ST232) if code >> b & 1]
        run_one(r, 9, arcs, 0, 8, idx % 2, False)
        if len(r["violations"]) >= 40 or r["counters"]["hangs"] >= 2:
            r["capped"] = True
            break
    return r


def _transport33_chunk(params, lo, hi):
    """transport networks: source 0, suppliers 1..3, consumers 4..6, sink 7; supplier and consumer arcs with capacity 1 or 2,
    each of the nine supplier-consumer arcs absent / capacity 1 / capacity 2: the same residual arc is wanted by several
    augmenting paths. index (+offset) = (inner*8 + supply_code)*8 + demand_code"""
    off = params
    r = new_result()
    inner_pairs = [(i, j) for i in (1, 2, 3) for j in (4, 5, 6)]
    for idx in range(lo + off, hi + off):
        dc = idx % 8
        sc = idx // 8 % 8
        ds = digits(idx // 64, 3, 9)
        arcs = [(0, i, 1 + (sc >> (i - 1) & 1)) for i in (1, 2, 3)]
        arcs += [(u, v, d) for (u, v), d in zip(inner_pairs, ds) if d]
        arcs += [(j, 7, 1 + (dc >> (j - 4) & 1)) for j in (4, 5, 6)]
        run_one(r, 8, arcs, 0, 7, idx % 2, False)
        if len(r["violations"]) >= 40 or r["counters"]["hangs"] >= 2:
            r["capped"] = True
            break
    return r


def large_networks():
    """larger networks whose maximum flow is known in closed form: (name, n, arcs, source, sink, value)"""
    out = []
    k = 70
    arcs = []
    val = 0
    for i in range(k):
        a, b = 1 + 2 * i, 2 + 2 * i
        c1, c2, c3 = 1 + i % 3, 1 + (i * 2) % 4, 1 + (i * 5) % 3
        arcs += [(0, a, c1), (a, b, c2), (b, 2 * k + 1, c3)]
        val += min(c1, c2, c3)
    out.append((f"{k}_disjoint_paths", 2 * k + 2, arcs, 0, 2 * k + 1, val))
    n = 40
    caps = [3 + (i * 7) % 5 for i in range(n - 1)]
    out.append(("chain_40", n, [(i, i + 1, caps[i]) for i in range(n - 1)] + [(i + 1, i, 9) for i in range(n - 1)], 0, n - 1, min(caps)))
    # rerouting chains: the arc v->u is filled by the shortest path s-v-u-t, emptied by s-a-u-(back over v->u)-v-..-t and needed
    # forward again by the longest path s-a-..-v-u-..-t; detours of lb / lc / le inner nodes; the source arcs carry 3 units
    for lb in (1, 2, 3):
        for lc in (1, 2, 3):
            for le in (1, 2, 3, 4):
                nxt = [4]

                def chain(a, b, k, arcs):
                    prev = a
                    for _ in range(k):
                        arcs.append((prev, nxt[0], 1))
                        prev = nxt[0]
                        nxt[0] += 1
                    return prev

                arcs = [(0, 1, 1), (1, 2, 1), (0, 3, 2), (3, 2, 1)]
                ends = [chain(1, None, lb, arcs), chain(2, None, le, arcs)]
                last_c = chain(3, None, lc, arcs)
                arcs.append((last_c, 1, 1))
                t = nxt[0]
                arcs += [(2, t, 1), (ends[0], t, 1), (ends[1], t, 1)]
                out.append((f"reroute_chains_{lb}_{lc}_{le}", t + 1, arcs, 0, t, 3))
    for m in (6, 12):
        arcs = [(0, 1 + i, 1) for i in range(m)] + [(1 + i, 1 + m + j, 1) for i in range(m) for j in range(m)] + [(1 + m + j, 2 * m + 1, 1) for j in range(m)]
        out.append((f"complete_bipartite_{m}x{m}_unit", 2 * m + 2, arcs, 0, 2 * m + 1, m))
        # only a perfect matching along the anti-diagonal plus forward arcs that greedy augmentation takes first
        arcs = [(0, 1 + i, 1) for i in range(m)] + [(1 + i, 1 + m + j, 1) for i in range(m) for j in range(m) if j <= m - 1 - i] + [(1 + m + j, 2 * m + 1, 1) for j in range(m)]
        out.append((f"staircase_bipartite_{m}x{m}_unit", 2 * m + 2, arcs, 0, 2 * m + 1, m))
    return out


def _large_chunk(params, lo, hi):
    from solvor.flow import max_flow

    nets = large_networks()
    r = new_result()
    for idx in range(lo, hi):
        name, n, arcs, s, t, val = nets[idx // 2]
        order = idx % 2
        g = build(n, arcs, order, False)
        wit = {"large": name, "order": order}
        res, err = guarded_run(lambda: max_flow(g, s, t), 20.0, 200_000_000)
        r["n"] += 1
        r["nontrivial"] += 1
        if err:
            r["violations"].append(viol("max_flow", err.split()[0].rstrip(":"), wit, f"max_flow on {name} (order {order}): {err}"))
            continue
        r["outcomes"]["large:" + ("ok" if res.objective == val else "wrong")] += 1
        cap = {}
        for u, v, w in arcs:
            cap[(u, v)] = cap.get((u, v), 0) + w
        net = [0] * n
        bad = None
        for (u, v), f in res.solution.items():
            if f < 0 or f > cap.get((u, v), 0):
                bad = f"flow {f} on arc {(u, v)} with capacity {cap.get((u, v), 0)}"
            net[u] -= f
            net[v] += f
        if bad is None and any(net[x] != 0 for x in range(n) if x not in (s, t)):
            bad = "flow is not conserved at an interior node"
        if bad is None and net[t] != res.objective:
            bad = f"objective {res.objective} but net inflow of the sink is {net[t]}"
        if bad:
            r["violations"].append(viol("max_flow", "capacity", wit, f"max_flow on {name} (order {order}): {bad}"))
        elif res.objective != val:
            r["violations"].append(viol("max_flow", "not_maximum", wit, f"max_flow on {name} (order {order}): objective {res.objective}, the maximum flow is {val}"))
        if not r["samples"]:
            r["samples"].append(wit)
    return r


def _unit8_block(params, lo, hi):
    return _unit_chunk((6, 8, (0,)), params + lo, params + hi)


def replay(v):
    w = v["witness"]
    r = new_result()
    if w.get("large"):
        names = [x[0] for x in large_networks()]
        i = names.index(w["large"]) * 2 + w["order"]
        rr = _large_chunk(None, i, i + 1)
        return rr["violations"][0] if rr["violations"] else None
    labels = w.get("labels")
    if labels:
        def tup(x):
            return tuple(tup(e) for e in x) if isinstance(x, list) else x

        labels = [tup(x) for x in labels]
    run_one(r, w["n"], [tuple(a) for a in w["arcs"]], w["source"], w["sink"], w["order"], w["all_keys"], labels)
    return r["violations"][0] if r["violations"] else None
