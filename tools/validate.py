#!/usr/bin/env python3
"""Validate MANIFEST.json and every evidence file against the schemas (run with python3-vt)."""
import json, sys, glob, jsonschema
man = json.load(open('/verif/MANIFEST.json'))
jsonschema.validate(man, json.load(open('/root/.vp/MANIFEST.schema.json')))
es = json.load(open('/root/.vp/EVIDENCE.schema.json'))
bad = 0
for f in sorted(glob.glob('/verif/evidence/*.json')):
    try:
        jsonschema.validate(json.load(open(f)), es)
    except Exception as e:
        bad += 1
        print('INVALID', f, str(e)[:300])
ids = [c['property_id'] for c in man['checks']] + [c['property_id'] for c in man.get('not_applicable', [])]
assert sorted(ids) == ['C%02d' % i for i in range(1, 21)], ids
print('manifest ok; checks=%d na=%d evidence_bad=%d' % (len(man['checks']), len(man.get('not_applicable', [])), bad))
sys.exit(1 if bad else 0)
