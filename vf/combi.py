"""Index <-> combinatorial object helpers for the E1 spaces (all injective, so cases are distinct)."""

from __future__ import annotations

from math import comb


def nth_combination(n: int, k: int, index: int) -> list[int]:
    """The index-th k-subset of range(n) in lexicographic order."""
    out = []
    x = 0
    kk = k
    while kk > 0:
        c = comb(n - x - 1, kk - 1)
        if index < c:
            out.append(x)
            kk -= 1
        else:
            index -= c
        x += 1
    return out


def next_combination(c: list[int], n: int) -> bool:
    """In-place lexicographic successor; False when c was the last one."""
    k = len(c)
    i = k - 1
    while i >= 0 and c[i] == n - k + i:
        i -= 1
    if i < 0:
        return False
    c[i] += 1
    for j in range(i + 1, k):
        c[j] = c[j - 1] + 1
    return True


def combinations_range(n: int, k: int, lo: int, hi: int):
    """Yield the k-subsets of range(n) with lexicographic index in [lo, hi)."""
    if k == 0:
        if lo == 0 and hi > 0:
            yield []
        return
    c = nth_combination(n, k, lo)
    for _ in range(lo, hi):
        yield c
        if not next_combination(c, n):
            return


def digits(idx: int, base: int, n: int) -> list[int]:
    out = []
    for _ in range(n):
        out.append(idx % base)
        idx //= base
    return out


def fresh(x):
    """an object equal to x (and hashing alike) but, where Python allows, not identical to it: callers build labels at
    different places, so a graph's keys, its neighbour entries and the source/goal arguments are rarely one object"""
    if isinstance(x, tuple) and x:
        return tuple([fresh(e) for e in x])
    if isinstance(x, str) and len(x) > 1:
        return "".join(list(x))
    if isinstance(x, bool) or x is None:
        return x
    if isinstance(x, int) and abs(x) > 256:
        return int(str(x))
    if isinstance(x, float):
        return float(repr(x))
    return x


# node labels of assorted hashable types (a falsy one, nested tuples, long strings); none can be confused with a number
# ("n", -1) and ("n", -2) are different labels with the same hash (CPython: hash(-1) == hash(-2))
NODE_LABELS = [("n", -1), "node-b", ("q", (1, 2)), "", ("n", -2), "zz-5", ("r",), "seven"]


def unlabel(obj, inv):
    """replace every label by its node number inside nested lists / tuples / sets / frozensets / dicts"""
    try:
        if obj in inv:
            return inv[obj]
    except TypeError:
        pass
    if isinstance(obj, dict):
        return {unlabel(k, inv): unlabel(v, inv) for k, v in obj.items()}
    if isinstance(obj, (list, tuple, set, frozenset)):
        return type(obj)(unlabel(x, inv) for x in obj)
    return obj


# labels of assorted hashable types without any order between them; none is a number (core numbers, counts and indices in
# an answer must never be mistaken for a label when it is translated back), the first is None, the second falsy
ANY_LABELS = [None, "", ("n", -1), "node-b", ("q", (1, 2)), ("n", -2), frozenset(), "zz-5"]

# mutually orderable labels (increasing like the node numbers they stand for), the first one falsy
# ("a", -2) < ("a", -1) are distinct but hash alike
ORD_LABELS = [(), ("a", -2), ("a", -1), ("b",), ("b", "a"), ("c",), ("c", "c"), ("d",)]
