#!/bin/bash
# tools/build_rust.sh [repo-dir]  -> prints the overlay directory on the last line.
# Builds the PyO3 extension from <repo>/rust (offline) into a cache keyed by the hash of the crate sources, and assembles an
# overlay package: symlinks to <repo>/solvor/**/*.py + the freshly built _solvor_rust .so. The stale .so in /repo/solvor is
# never used.
set -e
REPO=${1:-/repo}
CACHE=${SOLVOR_VERIF_CACHE:-/var/tmp/solvor-verif}
H=$( (cd "$REPO/rust" && find src Cargo.toml Cargo.lock -type f | sort | xargs sha1sum) | sha1sum | cut -c1-16)
OUT=$CACHE/rust-$H
SO=$OUT/_solvor_rust.cpython-312-x86_64-linux-gnu.so
if [ ! -f "$SO" ]; then
  mkdir -p "$OUT"
  export CARGO_NET_OFFLINE=true
  export PYO3_PYTHON=/venv/bin/python
  (cd "$REPO/rust" && CARGO_TARGET_DIR=$CACHE/cargo-target cargo build --release --offline >"$OUT/build.log" 2>&1) || { tail -20 "$OUT/build.log" >&2; echo "BUILD-FAILED"; exit 3; }
  cp "$CACHE/cargo-target/release/lib_solvor_rust.so" "$SO"
fi
# overlay keyed by repo path + rust hash; python sources are symlinked so the working tree is what runs
OV=$CACHE/overlay-$(echo "$REPO" | sha1sum | cut -c1-8)-$H
rm -rf "$OV"; mkdir -p "$OV/solvor"
(cd "$REPO/solvor" && find . -type d ! -name __pycache__ | while read d; do mkdir -p "$OV/solvor/$d"; done)
(cd "$REPO/solvor" && find . -name '*.py' -o -name 'py.typed' | while read f; do ln -s "$REPO/solvor/$f" "$OV/solvor/$f"; done)
cp "$SO" "$OV/solvor/"
echo "$OV"
