#!/bin/bash
# tools/confirm_mutant.sh <seed-id> <property> <patch.diff> <demo.py> "<needs>" [checks...]
# Confirms a seeded change independently: (1) applies to HEAD of /repo in a scratch worktree, (2) the repository's
# suite passes with it, (3) the demonstration fails with it and passes without it; then runs the named checks against
# it and stores everything under /verif/seeded/<seed-id>/.
set -u
sid=$1; prop=$2; patch=$(readlink -f "$3"); demo=$(readlink -f "$4"); needs=$5; shift 5
wt=/tmp/wtm/confirm_$sid.$$
mkdir -p /tmp/wtm /verif/seeded/$sid
git -C /repo worktree add -q --detach "$wt" HEAD || exit 2
head=$(git -C /repo rev-parse --short HEAD)
cp "$demo" "$wt/_demo.py"
if [ "${WITH_RUST:-0}" = 1 ] || grep -q '^diff --git a/rust' "$patch"; then
  ov0=$(/verif/tools/build_rust.sh "$wt" | tail -1); cp "$ov0"/solvor/_solvor_rust*.so "$wt/solvor/" 2>/dev/null
fi
( cd "$wt" && /venv/bin/python _demo.py >/tmp/wtm/$sid.demo0 2>&1 ); demo_clean=$?
if ! git -C "$wt" apply "$patch"; then echo "SEED $sid PATCH-DOES-NOT-APPLY"; git -C /repo worktree remove --force "$wt"; exit 2; fi
if [ "${WITH_RUST:-0}" = 1 ] || grep -q '^diff --git a/rust' "$patch"; then
  # changes on the Rust side: build the extension from the changed crate into the worktree so that the suite and the
  # demonstration exercise it (in a plain worktree the .so is absent and the Rust tests are skipped)
  ov=$(/verif/tools/build_rust.sh "$wt" | tail -1)
  cp "$ov"/solvor/_solvor_rust*.so "$wt/solvor/" 2>/dev/null
fi
( cd "$wt" && /venv/bin/python _demo.py >/tmp/wtm/$sid.demo1 2>&1 ); demo_mut=$?
suite=$(cd "$wt" && /venv/bin/python -m pytest -q -p no:cacheprovider --timeout=900 -n ${NPROC:-6} --no-cov --deselect tests/test_docs.py::test_mkdocs_builds 2>&1 | tail -1)
results=""
cd /verif
for pid in "$@"; do
  out=$(SOLVOR_REPO=$wt VERIF_SCRATCH_EVIDENCE=/var/tmp/solvor-verif/mut-evidence/$sid ./check $pid --tier ${TIER:-quick} 2>&1); rc=$?
  first=$(echo "$out" | grep -m1 -B1 '^VIOLATION' | head -1 | cut -c1-300 | tr '"' "'")
  rp=$(echo "$out" | grep -m1 '^VIOLATION' | sed 's/.*replay=//')
  rrc=null
  if [ -n "$rp" ]; then SOLVOR_REPO=$wt ./check $pid --replay "$rp" >/dev/null 2>&1; rrc=$?; fi
  results="$results{\"check\":\"$pid\",\"tier\":\"${TIER:-quick}\",\"exit\":$rc,\"replay_exit_on_changed_tree\":$rrc,\"first_violation\":\"$first\"},"
done
git -C /repo worktree remove --force "$wt"
cp "$patch" /verif/seeded/$sid/patch.diff; cp "$demo" /verif/seeded/$sid/demo.py
ok=false; case "$suite" in *passed*) case "$suite" in *failed*|*error*) ;; *) [ $demo_clean -eq 0 ] && [ $demo_mut -ne 0 ] && ok=true;; esac;; esac
cat > /verif/seeded/$sid/meta.json <<JSON
{
 "id": "$sid",
 "breaks_property": "$prop",
 "needs_to_manifest": "$needs",
 "base_commit": "$head",
 "confirmed": $ok,
 "ran": {
  "suite_with_change": "$suite",
  "demo_exit_unchanged": $demo_clean,
  "demo_exit_changed": $demo_mut,
  "demo_output_changed": "$(head -c 300 /tmp/wtm/$sid.demo1 | tr '"\n' "' ")"
 },
 "checks": [${results%,}]
}
JSON
echo "SEED $sid confirmed=$ok suite='$suite' demo_clean=$demo_clean demo_mut=$demo_mut :: $results"
