"""C15 - cut vertices, bridges, k-cores, PageRank, Louvain obey their definitions (engine E1 + fuel)."""

from __future__ import annotations

import itertools
import math

from types import SimpleNamespace

from vf.combi import ANY_LABELS, ORD_LABELS, digits, fresh, unlabel
from vf.guard import call as gcall, too_many_hangs
from vf.core import Job, new_result, viol
from vf.guard import guarded

LEVEL = "exploration"
RULE = (
    "E1: every undirected graph on <=5 nodes x every node order x asc/desc neighbour order, every asymmetric listing "
    "(each edge listed by one endpoint or both), arbitrary neighbour sequences with self loops and duplicates, "
    "neighbours outside the node set; every digraph on <=4 nodes x damping in {0.15,0.5,0.85} for pagerank; every "
    "graph on <=5 nodes x resolution in {0.5,1,2} for louvain. Oracles: delete-and-count-components (cut vertices, "
    "bridges), iterated deletion (core numbers), residual of the damped PageRank equation bounded by n*tol, modularity "
    "recomputed from the returned partition. Non-trivial = the graph has at least one edge and the expected answer "
    "is not empty/constant (a cut vertex, a bridge, two different core numbers, non-uniform ranks, >1 community)."
)
ASSUMPTIONS = [
    "n <= 5 (6 in thorough for the structural functions)",
    "the undirected graph denoted by a neighbour function is the union of the listed adjacencies with self loops ignored "
    "(the modules say 'treats graph as undirected')",
    "PageRank residual bound n*tol follows from the L1-contraction of the update and the max-norm stopping rule",
]


# ------------------------------------------------------------------------------------------ oracles


def n_components(nodes, edges, skip_node=None, skip_edge=None):
    comp = {v: v for v in nodes if v != skip_node}

    def find(x):
        while comp[x] != x:
            x = comp[x]
        return x

    for e in edges:
        if e == skip_edge:
            continue
        u, v = e
        if u == skip_node or v == skip_node:
            continue
        a, b = find(u), find(v)
        if a != b:
            comp[a] = b
    return len({find(x) for x in comp})


def cut_vertices(nodes, edges):
    base = n_components(nodes, edges)
    return {v for v in nodes if n_components(nodes, edges, skip_node=v) > base}  # removing v also removes its own component


def bridge_set(nodes, edges):
    base = n_components(nodes, edges)
    return {e for e in edges if n_components(nodes, edges, skip_edge=e) > base}


def core_numbers(nodes, edges):
    core = {}
    for k in range(0, len(nodes) + 1):
        alive = set(nodes)
        changed = True
        while changed:
            changed = False
            for v in list(alive):
                deg = sum(1 for (a, b) in edges if (a == v and b in alive) or (b == v and a in alive))
                if deg < k:
                    alive.discard(v)
                    changed = True
        for v in alive:
            core[v] = k
    return core


def und_edges(nodes, adj):
    ns = set(nodes)
    es = set()
    for u in nodes:
        for v in adj[u]:
            if v in ns and v != u:
                es.add((min(u, v), max(u, v)))
    return sorted(es)


# ------------------------------------------------------------------------------------ structural part


def labelled_call(fn, nodes, adj, *extra, labels=None, oneshot=False, **kw):
    """the same call over orderable tuple labels (or the given label list), a fresh (equal, not identical) object at every
    use; the answer is translated back to node numbers"""
    L = labels or ORD_LABELS
    lab = lambda x: fresh(L[x])  # noqa: E731
    inv = {L[x]: x for x in range(len(adj))}
    if oneshot:  # node collection and neighbour answers as one-shot iterables (generators): legal Iterable[S] values
        res = fn((lab(x) for x in nodes), lambda v: (lab(w) for w in adj[inv[v]]), *extra, **kw)
    else:
        res = fn([lab(x) for x in nodes], lambda v: [lab(w) for w in adj[inv[v]]], *extra, **kw)
    return SimpleNamespace(status=res.status, objective=res.objective, solution=unlabel(res.solution, inv))


def run_structural(r, universe_n, adj, declared, kcore_too=True, labelled=False):
    from solvor.articulation import articulation_points, bridges
    from solvor.kcore import kcore, kcore_decomposition

    nodes = list(declared)
    edges = und_edges(nodes, adj)
    nb = lambda v: adj[v]  # noqa: E731
    wit = {"adj": [list(a) for a in adj], "nodes": nodes}
    if labelled:
        wit["labelled"] = labelled

    def call(fn, *extra):
        if labelled:
            return lambda: labelled_call(fn, nodes, adj, *extra, labels=ANY_LABELS if labelled == "any" else None, oneshot=labelled == "oneshot")
        return lambda: fn(list(nodes), nb, *extra)
    # removing a vertex: count components among the remaining vertices; v is a cut vertex iff that count exceeds
    # (components before) minus (1 if v was isolated else 0)
    base = n_components(nodes, edges)
    want_ap = set()
    for v in nodes:
        isolated = not any(v in e for e in edges)
        after = n_components(nodes, edges, skip_node=v)
        if after > base - (1 if isolated else 0):
            want_ap.add(v)
    want_br = bridge_set(nodes, edges)
    want_core = core_numbers(nodes, edges)
    nontrivial = bool(want_ap or want_br or len(set(want_core.values())) > 1)

    def rec(fname, fn, judge):
        r["n"] += 1
        if nontrivial:
            r["nontrivial"] += 1
        try:
            res = gcall(fn)
        except Exception as ex:  # noqa: BLE001
            r["outcomes"][fname + ":raised"] += 1
            r["violations"].append(viol(fname, "raised", wit, f"{fname}(nodes={nodes}, adj={adj}): {type(ex).__name__}: {ex}"))
            return
        errs, label = judge(res)
        r["outcomes"][f"{fname}:{label}"] += 1
        for kind, detail in errs:
            r["violations"].append(viol(fname, kind, wit, f"{fname}(nodes={nodes}, adj={adj}): {detail}"))

    def j_ap(res):
        errs = []
        if set(res.solution) != want_ap:
            errs.append(("wrong_cut_vertices", f"returned {sorted(res.solution)}, removal-based definition gives {sorted(want_ap)}"))
        return errs, str(len(want_ap))

    def j_br(res):
        errs = []
        got = [tuple(e) for e in res.solution]
        if len(set(got)) != len(got):
            errs.append(("bridge_twice", f"bridge listed twice: {got}"))
        if any(e[0] > e[1] for e in got):
            errs.append(("bridge_not_canonical", f"bridge not reported as (min,max): {got}"))
        if {(min(e), max(e)) for e in got} != want_br:
            errs.append(("wrong_bridges", f"returned {sorted(got)}, removal-based definition gives {sorted(want_br)}"))
        return errs, str(len(want_br))

    def j_core(res):
        errs = []
        if dict(res.solution) != want_core:
            errs.append(("wrong_core_numbers", f"returned {dict(res.solution)}, iterated deletion gives {want_core}"))
        return errs, "max%d" % (max(want_core.values()) if want_core else 0)

    rec("articulation_points", call(articulation_points), j_ap)
    if labelled != "any":  # bridges are reported as (min, max): the labels must be orderable
        rec("bridges", call(bridges), j_br)
    if kcore_too:
        rec("kcore_decomposition", call(kcore_decomposition), j_core)
        for k in range(0, len(nodes) + 1):
            want = {v for v, c in want_core.items() if c >= k}

            def j_k(res, want=want, k=k):
                errs = []
                if set(res.solution) != want:
                    errs.append(("wrong_kcore", f"kcore(k={k}) returned {sorted(res.solution)}, expected {sorted(want)}"))
                return errs, "k"

            rec("kcore", call(kcore, k), j_k)
    if not r["samples"]:
        r["samples"].append(wit)


def _pairs(n):
    return [(u, v) for u in range(n) for v in range(u + 1, n)]


def _simple_chunk(params, lo, hi):
    """index = graph_code * (#perms*2) + perm*2 + desc ; symmetric listing"""
    n, orders = params
    perms = list(itertools.permutations(range(n))) if orders == "all" else [tuple(range(n)), tuple(range(n - 1, -1, -1))]
    pairs = _pairs(n)
    per = len(perms) * 2
    r = new_result()
    for idx in range(lo, hi):
        code = idx // per
        pi = (idx % per) // 2
        desc = idx % 2
        adj = [[] for _ in range(n)]
        for b, (u, v) in enumerate(pairs):
            if code >> b & 1:
                adj[u].append(v)
                adj[v].append(u)
        adj = [sorted(a, reverse=bool(desc)) for a in adj]
        run_structural(r, n, adj, perms[pi], kcore_too=(desc == 0))
        if desc == 0 and pi == len(perms) - 1:
            run_structural(r, n, adj, perms[pi], labelled=True)
            run_structural(r, n, adj, perms[pi], labelled="oneshot")
        if desc == 0 and pi in (0, len(perms) - 1):
            run_structural(r, n, adj, perms[pi], labelled="any")  # unordered labels incl. None: first and last node order
        if len(r["violations"]) >= 40 or too_many_hangs():
            r["capped"] = True
            break
    return r


U7 = [(0, 1), (1, 2), (0, 2), (2, 3), (3, 4), (4, 5), (3, 5), (5, 6), (4, 6), (6, 0), (1, 4), (2, 5)]
UORD7 = [(0, 1, 2, 3, 4, 5, 6), (6, 5, 4, 3, 2, 1, 0), (3, 0, 5, 1, 6, 2, 4)]


def _u7_chunk(params, lo, hi):
    """7 nodes, every subset of the 12 declared undirected edges U7 (two triangles joined by a bridge, a third cycle, chords)
    x 3 node orders: bow ties, cut vertices below the DFS root, cores of order 3 - shapes that need more than 5 nodes.
    index = subset*3 + order"""
    r = new_result()
    for idx in range(lo, hi):
        order = UORD7[idx % 3]
        code = idx // 3
        adj = [[] for _ in range(7)]
        for b, (u, v) in enumerate(U7):
            if code >> b & 1:
                adj[u].append(v)
                adj[v].append(u)
        run_structural(r, 7, adj, order)
        if len(r["violations"]) >= 40 or too_many_hangs():
            r["capped"] = True
            break
    return r


def large_graphs():
    """larger structured undirected graphs as symmetric adjacency lists (name, adj)"""
    out = []
    n = 70
    out.append(("path70", [[j for j in (i - 1, i + 1) if 0 <= j < n] for i in range(n)]))
    out.append(("cycle70", [[(i - 1) % n, (i + 1) % n] for i in range(n)]))
    # a chain of 12 triangles, consecutive triangles joined by a bridge
    adj = [[] for _ in range(36)]
    for t in range(12):
        a, b, c = 3 * t, 3 * t + 1, 3 * t + 2
        for u, v in ((a, b), (b, c), (a, c)):
            adj[u].append(v)
            adj[v].append(u)
        if t:
            adj[a].append(a - 1)
            adj[a - 1].append(a)
    out.append(("triangle_chain_36", adj))
    # K7 with a pendant path of 5 and an isolated node: cores 6, 1, 0
    k = 7
    adj = [[j for j in range(k) if j != i] for i in range(k)] + [[] for _ in range(6)]
    prev = 0
    for x in range(k, k + 5):
        adj[prev].append(x)
        adj[x].append(prev)
        prev = x
    out.append(("K7_with_tail_and_isolated", adj))
    g = 6
    adj = [[] for _ in range(g * g)]
    for i in range(g):
        for j in range(g):
            for a, b in ((i + 1, j), (i, j + 1)):
                if a < g and b < g:
                    adj[i * g + j].append(a * g + b)
                    adj[a * g + b].append(i * g + j)
    out.append(("grid6x6", adj))
    return out


def _large_chunk(params, lo, hi):
    gs = large_graphs()
    r = new_result()
    for idx in range(lo, hi):
        name, adj = gs[idx // 2]
        n = len(adj)
        order = tuple(range(n)) if idx % 2 == 0 else tuple(range(n - 1, -1, -1))
        run_structural(r, n, adj, order, labelled=False)
        for d in (0.85,):
            errs, label, nt = judge_pagerank(list(order), adj, d)
            r["n"] += 1
            r["outcomes"]["pagerank:" + label] += 1
            for kind, detail in errs:
                r["violations"].append(viol("pagerank", kind, {"n": n, "adj": adj, "damping": d, "nodes": list(order)}, f"pagerank on {name}, damping {d}: {detail}"))
        _louvain_rec(r, order, adj, 1.0)
    return r


def deep_graphs():
    """graphs far beyond the interpreter's recursion depth / with hundreds of blocks, answers known in closed form:
    (name, symmetric adjacency lists, cut vertices, bridges, core number per node)"""
    out = []
    n = 3000
    out.append(("path3000", [[j for j in (i - 1, i + 1) if 0 <= j < n] for i in range(n)], set(range(1, n - 1)), {(i, i + 1) for i in range(n - 1)}, [1] * n))
    # 130 bow-ties (two triangles sharing the node c), bow-tie i joined to bow-tie i+1 by one edge b2_i - a1_{i+1}
    B = 130
    adj = [[] for _ in range(5 * B)]

    def link(u, v):
        adj[u].append(v)
        adj[v].append(u)

    ap, br = set(), set()
    for i in range(B):
        c, a1, a2, b1, b2 = range(5 * i, 5 * i + 5)
        for u, v in ((c, a1), (c, a2), (a1, a2), (c, b1), (c, b2), (b1, b2)):
            link(u, v)
        ap.add(c)
        if i + 1 < B:
            link(b2, 5 * (i + 1) + 1)
            ap.update((b2, 5 * (i + 1) + 1))
            br.add((b2, 5 * (i + 1) + 1))
    out.append(("bowtie_chain_650", [sorted(a) for a in adj], ap, br, [2] * (5 * B)))
    # a cycle of 1500 nodes with a tail of 1000 nodes hanging off node 0
    C, T = 1500, 1000
    adj = [[(i - 1) % C, (i + 1) % C] for i in range(C)] + [[] for _ in range(T)]
    prev = 0
    for x in range(C, C + T):
        adj[prev].append(x)
        adj[x].append(prev)
        prev = x
    out.append(("cycle1500_tail1000", adj, {0} | set(range(C, C + T - 1)), {(0, C)} | {(x, x + 1) for x in range(C, C + T - 1)}, [2] * C + [1] * T))
    return out


def _deep_chunk(params, lo, hi):
    from solvor.articulation import articulation_points, bridges
    from solvor.kcore import kcore_decomposition

    gs = deep_graphs()
    r = new_result()
    for idx in range(lo, hi):
        name, adj, want_ap, want_br, want_core = gs[idx // 2]
        n = len(adj)
        order = list(range(n)) if idx % 2 == 0 else list(range(n - 1, -1, -1))
        wit = {"deep": name, "reversed": idx % 2 == 1}
        for fname, fn, ok in (
            ("articulation_points", articulation_points, lambda res: set(res.solution) == want_ap),
            ("bridges", bridges, lambda res: len(res.solution) == len(want_br) and {(min(e), max(e)) for e in res.solution} == want_br),
            ("kcore_decomposition", kcore_decomposition, lambda res: dict(res.solution) == {v: want_core[v] for v in range(n)}),
        ):
            r["n"] += 1
            r["nontrivial"] += 1
            try:
                res = gcall(lambda: fn(list(order), lambda v: adj[v]))
            except Exception as ex:  # noqa: BLE001
                r["outcomes"][f"deep:{fname}:raised"] += 1
                r["violations"].append(viol(fname, "raised", dict(wit, function=fname), f"{fname} on {name} ({n} nodes, {'descending' if idx % 2 else 'ascending'} node order): {type(ex).__name__}: {str(ex)[:120]}"))
                continue
            good = ok(res)
            r["outcomes"][f"deep:{fname}:{'ok' if good else 'wrong'}"] += 1
            if not good:
                r["violations"].append(viol(fname, "wrong_on_deep_graph", dict(wit, function=fname), f"{fname} on {name} ({n} nodes, {'descending' if idx % 2 else 'ascending'} node order): answer of size {len(res.solution)} differs from the closed form"))
    return r


def _asym_chunk(params, lo, hi):
    """n=4: each of the 6 pairs in {absent, listed by u, listed by v, listed by both} x all node orders"""
    n = params
    pairs = _pairs(n)
    perms = list(itertools.permutations(range(n)))
    r = new_result()
    for idx in range(lo, hi):
        code = idx // len(perms)
        pi = idx % len(perms)
        ds = digits(code, 4, len(pairs))
        adj = [[] for _ in range(n)]
        for (u, v), d in zip(pairs, ds):
            if d in (1, 3):
                adj[u].append(v)
            if d in (2, 3):
                adj[v].append(u)
        run_structural(r, n, adj, perms[pi])
        if len(r["violations"]) >= 40 or too_many_hangs():
            r["capped"] = True
            break
    return r


def _seq_chunk(params, lo, hi):
    """n=3: neighbour lists are arbitrary sequences of length <=3 (self loops, duplicates, asymmetry)"""
    seqs = [()]
    for k in (1, 2, 3):
        seqs.extend(itertools.product(range(3), repeat=k))
    r = new_result()
    for idx in range(lo, hi):
        ds = digits(idx, len(seqs), 3)
        adj = [list(seqs[d]) for d in ds]
        run_structural(r, 3, adj, (0, 1, 2))
        if len(r["violations"]) >= 40 or too_many_hangs():
            r["capped"] = True
            break
    return r


DECL = [(0, 1, 2), (2, 1, 0), (1, 3), (0, 2, 3)]


def _outside_chunk(params, lo, hi):
    """symmetric graphs on a 4-node universe, only a subset declared"""
    pairs = _pairs(4)
    r = new_result()
    for idx in range(lo, hi):
        code = idx // len(DECL)
        decl = DECL[idx % len(DECL)]
        adj = [[] for _ in range(4)]
        for b, (u, v) in enumerate(pairs):
            if code >> b & 1:
                adj[u].append(v)
                adj[v].append(u)
        run_structural(r, 4, adj, decl)
        if len(r["violations"]) >= 40 or too_many_hangs():
            r["capped"] = True
            break
    return r


# ------------------------------------------------------------------------------------------ pagerank


def judge_pagerank(nodes, adj, damping, max_iter=100, tol=1e-6, edges_variant=False, labelled=False):
    from solvor.pagerank import pagerank, pagerank_edges
    from solvor.types import Status

    n = len(nodes)
    try:
        if edges_variant:
            el = [(u, v) for u in nodes for v in adj[u]]
            res = gcall(lambda: pagerank_edges(n, el, damping=damping, max_iter=max_iter, tol=tol, backend="python"))
        elif labelled:
            res = gcall(lambda: labelled_call(pagerank, nodes, adj, damping=damping, max_iter=max_iter, tol=tol, oneshot=labelled == "oneshot"))
        else:
            res = gcall(lambda: pagerank(list(nodes), lambda v: adj[v], damping=damping, max_iter=max_iter, tol=tol))
    except Exception as ex:  # noqa: BLE001
        return [("raised", f"{type(ex).__name__}: {ex}")], "raised", False
    p = res.solution
    errs = []
    if set(p) != set(nodes):
        return [("keys", f"scores for {sorted(p)} instead of {sorted(nodes)}")], "bad", False
    if any(not (x >= 0) for x in p.values()):
        errs.append(("negative_score", f"scores {p}"))
    if abs(sum(p.values()) - 1.0) > 1e-9:
        errs.append(("sum_not_one", f"scores sum to {sum(p.values())!r}"))
    ns = set(nodes)
    out = {u: [v for v in adj[u] if v in ns] for u in nodes}
    if res.status == Status.OPTIMAL:
        dang = sum(p[u] for u in nodes if not out[u])
        worst = 0.0
        for v in nodes:
            s = 0.0
            for u in nodes:
                if out[u]:
                    s += p[u] * out[u].count(v) / len(out[u])
            rhs = (1 - damping) / n + damping * (s + dang / n)
            worst = max(worst, abs(p[v] - rhs))
        slack = 1e-12
        if tol < 1e-9:
            # tight tolerances: residual of the returned floats in exact arithmetic, so that only the solver's own rounding
            # (a few ulp of numbers <= 1 per node) needs slack
            from fractions import Fraction as Fr

            fp = {u: Fr(p[u]) for u in nodes}
            fd = Fr(damping)
            fdang = sum(fp[u] for u in nodes if not out[u])
            worst = 0.0
            for v in nodes:
                fs = sum((fp[u] * out[u].count(v) / len(out[u]) for u in nodes if out[u]), Fr(0))
                worst = max(worst, abs(float(fp[v] - ((1 - fd) / n + fd * (fs + fdang / n)))))
            slack = 4e-15
        if worst > n * tol + slack:
            errs.append(("equation_residual", f"damped PageRank equation violated by {worst:.3g} > n*tol = {n * tol:.3g} with status OPTIMAL; scores {p}"))
    elif res.status != Status.MAX_ITER:
        errs.append(("status", f"status {res.status.name}"))
    uniform = max(p.values()) - min(p.values()) < 1e-12
    return errs, res.status.name, not uniform


def _pr_chunk(params, lo, hi):
    """index = graph_code*3 + damping ; all digraphs incl. self loops on n nodes"""
    n = params
    slots = [(u, v) for u in range(n) for v in range(n)]
    damp = (0.15, 0.5, 0.85)
    r = new_result()
    for idx in range(lo, hi):
        code = idx // 3
        d = damp[idx % 3]
        adj = [[] for _ in range(n)]
        for b, (u, v) in enumerate(slots):
            if code >> b & 1:
                adj[u].append(v)
        for ev in (False, True, "labelled") if idx % 3 == 2 else (False, True, "oneshot") if idx % 3 == 1 else (False, True):
            errs, label, nt = judge_pagerank(list(range(n)), adj, d, edges_variant=ev is True, labelled=ev if ev in ("labelled", "oneshot") else False)
            r["n"] += 1
            r["outcomes"]["pagerank:" + label] += 1
            if nt:
                r["nontrivial"] += 1
            wit = {"n": n, "adj": adj, "damping": d, "edges_variant": ev is True, "labelled": ev if ev in ("labelled", "oneshot") else False}
            for kind, detail in errs:
                r["violations"].append(viol("pagerank", kind, wit, f"pagerank{'_edges' if ev is True else ''}(adj={adj}, damping={d}{', tuple labels' if ev == 'labelled' else ', one-shot iterables' if ev == 'oneshot' else ''}): {detail}"))
        if not r["samples"]:
            r["samples"].append({"function": "pagerank", "adj": adj, "damping": d})
        if len(r["violations"]) >= 40 or too_many_hangs():
            r["capped"] = True
            break
    return r


PR_TOLS = (1e-2, 1e-4, 1e-9, 1e-13, 1e-15)


def _pr_tol_chunk(params, lo, hi):
    """index = (graph_code*3 + damping)*len(PR_TOLS) + tol ; all digraphs incl. self loops on n nodes, generous max_iter"""
    n = params
    slots = [(u, v) for u in range(n) for v in range(n)]
    damp = (0.15, 0.5, 0.85)
    r = new_result()
    for idx in range(lo, hi):
        tol = PR_TOLS[idx % len(PR_TOLS)]
        k = idx // len(PR_TOLS)
        d = damp[k % 3]
        code = k // 3
        adj = [[] for _ in range(n)]
        for b, (u, v) in enumerate(slots):
            if code >> b & 1:
                adj[u].append(v)
        errs, label, nt = judge_pagerank(list(range(n)), adj, d, max_iter=20000, tol=tol)
        r["n"] += 1
        r["outcomes"][f"pagerank:tol{tol:g}:" + label] += 1
        if nt:
            r["nontrivial"] += 1
        wit = {"n": n, "adj": adj, "damping": d, "tol": tol, "max_iter": 20000}
        for kind, detail in errs:
            r["violations"].append(viol("pagerank", kind, wit, f"pagerank(adj={adj}, damping={d}, tol={tol}, max_iter=20000): {detail}"))
        if len(r["violations"]) >= 40 or too_many_hangs():
            r["capped"] = True
            break
    return r


def _pr_seq_chunk(params, lo, hi):
    """n=3 duplicate-edge lists, declared subset variants, small max_iter"""
    seqs = [()]
    for k in (1, 2, 3):
        seqs.extend(itertools.product(range(3), repeat=k))
    cfgs = [((0, 1, 2), 0.85, 100), ((2, 0, 1), 0.5, 100), ((0, 1), 0.85, 100), ((0, 1, 2), 0.85, 2)]
    r = new_result()
    for idx in range(lo, hi):
        ds = digits(idx // len(cfgs), len(seqs), 3)
        nodes, d, mi = cfgs[idx % len(cfgs)]
        adj = [list(seqs[x]) for x in ds]
        errs, label, nt = judge_pagerank(list(nodes), adj, d, max_iter=mi)
        r["n"] += 1
        r["outcomes"]["pagerank:" + label] += 1
        if nt:
            r["nontrivial"] += 1
        wit = {"nodes": list(nodes), "adj": adj, "damping": d, "max_iter": mi}
        for kind, detail in errs:
            r["violations"].append(viol("pagerank", kind, wit, f"pagerank(nodes={nodes}, adj={adj}, damping={d}, max_iter={mi}): {detail}"))
        if len(r["violations"]) >= 40 or too_many_hangs():
            r["capped"] = True
            break
    return r


# ------------------------------------------------------------------------------------------- louvain


def judge_louvain(nodes, adj, resolution, labelled=False):
    from solvor.community import louvain

    def run():
        try:
            if labelled:
                return labelled_call(louvain, nodes, adj, resolution=resolution, oneshot=labelled == "oneshot"), None
            return louvain(list(nodes), lambda v: adj[v], resolution=resolution), None
        except Exception as ex:  # noqa: BLE001
            return None, f"{type(ex).__name__}: {ex}"

    v, verdict = guarded(run, 2.0, 1_000_000)
    if verdict == "nontermination":
        return [("nontermination", "louvain did not return within the fuel budget")], "hang", False
    res, err = v
    if err:
        return [("raised", err)], "raised", False
    comms = res.solution
    errs = []
    flat = [x for c in comms for x in c]
    if any(len(c) == 0 for c in comms):
        errs.append(("empty_community", f"{comms}"))
    if len(flat) != len(set(flat)) or set(flat) != set(nodes):
        errs.append(("not_a_partition", f"communities {comms} do not partition {list(nodes)}"))
        return errs, "bad", False
    edges = und_edges(list(nodes), adj)
    m = len(edges)
    if m == 0:
        q = 0.0
    else:
        deg = {v: 0 for v in nodes}
        for a, b in edges:
            deg[a] += 1
            deg[b] += 1
        q = 0.0
        for c in comms:
            inside = sum(1 for a, b in edges if a in c and b in c)
            dc = sum(deg[v] for v in c)
            q += inside / m - resolution * (dc / (2 * m)) ** 2
    if abs(q - res.objective) > 1e-9:
        errs.append(("modularity_mismatch", f"objective {res.objective!r}, modularity of {comms} at resolution {resolution} is {q!r}"))
    return errs, f"{min(len(comms), 5)}comms", len(comms) > 1 and m > 0


def _louvain_chunk(params, lo, hi):
    n, orders = params
    perms = list(itertools.permutations(range(n))) if orders == "all" else [tuple(range(n)), tuple(range(n - 1, -1, -1))]
    pairs = _pairs(n)
    ress = (0.5, 1.0, 2.0)
    per = len(perms) * 3
    r = new_result()
    for idx in range(lo, hi):
        code = idx // per
        pi = (idx % per) // 3
        res_ = ress[idx % 3]
        adj = [[] for _ in range(n)]
        for b, (u, v) in enumerate(pairs):
            if code >> b & 1:
                # asymmetric on purpose for odd codes: listed by the smaller endpoint only
                adj[u].append(v)
                if code % 2 == 0:
                    adj[v].append(u)
        lb = pi == len(perms) - 1 and idx % 3 == 1  # one order, default resolution: tuple labels instead of numbers
        if pi == 0 and idx % 3 == 1:
            lb = "oneshot"  # first order, default resolution: tuple labels through one-shot iterables
        errs, label, nt = judge_louvain(perms[pi], adj, res_, labelled=lb)
        r["n"] += 1
        r["outcomes"]["louvain:" + label] += 1
        if label == "hang":
            r["counters"]["hangs"] += 1
        if nt:
            r["nontrivial"] += 1
        wit = {"nodes": list(perms[pi]), "adj": adj, "resolution": res_, "labelled": lb}
        for kind, detail in errs:
            r["violations"].append(viol("louvain", kind, wit, f"louvain(nodes={list(perms[pi])}, adj={adj}, resolution={res_}{', tuple labels' if lb else ''}): {detail}"))
        if not r["samples"]:
            r["samples"].append(dict(wit, function="louvain"))
        if len(r["violations"]) >= 40 or r["counters"]["hangs"] >= 2:
            r["capped"] = True
            break
    return r


def _louvain_rec(r, nodes, adj, res_):
    errs, label, nt = judge_louvain(nodes, adj, res_)
    r["n"] += 1
    r["outcomes"]["louvain:" + label] += 1
    if label == "hang":
        r["counters"]["hangs"] += 1
    if nt:
        r["nontrivial"] += 1
    wit = {"nodes": list(nodes), "adj": adj, "resolution": res_, "labelled": False}
    for kind, detail in errs:
        r["violations"].append(viol("louvain", kind, wit, f"louvain(nodes={list(nodes)}, adj={adj}, resolution={res_}): {detail}"))
    if not r["samples"]:
        r["samples"].append(dict(wit, function="louvain"))


def _louvain_mixed_chunk(params, lo, hi):
    """n=4: each of the 6 pairs in {absent, listed by u, listed by v, listed by both} (mixed listing multiplicities inside
    one graph) x 2 node orders x resolution; index = (code*2 + order)*3 + resolution"""
    pairs = _pairs(4)
    ress = (0.5, 1.0, 2.0)
    r = new_result()
    for idx in range(lo, hi):
        res_ = ress[idx % 3]
        k = idx // 3
        nodes = (0, 1, 2, 3) if k % 2 == 0 else (3, 2, 1, 0)
        ds = digits(k // 2, 4, len(pairs))
        adj = [[] for _ in range(4)]
        for (u, v), d in zip(pairs, ds):
            if d in (1, 3):
                adj[u].append(v)
            if d in (2, 3):
                adj[v].append(u)
        _louvain_rec(r, nodes, adj, res_)
        if len(r["violations"]) >= 40 or r["counters"]["hangs"] >= 2:
            r["capped"] = True
            break
    return r


def _louvain_seq_chunk(params, lo, hi):
    """n=3: neighbour lists are arbitrary sequences of length <=3 (self loops, duplicates, asymmetry) x resolution"""
    seqs = [()]
    for k in (1, 2, 3):
        seqs.extend(itertools.product(range(3), repeat=k))
    ress = (0.5, 1.0, 2.0)
    r = new_result()
    for idx in range(lo, hi):
        ds = digits(idx // 3, len(seqs), 3)
        _louvain_rec(r, (0, 1, 2), [list(seqs[d]) for d in ds], ress[idx % 3])
        if len(r["violations"]) >= 40 or r["counters"]["hangs"] >= 2:
            r["capped"] = True
            break
    return r


def jobs(tier, seed):
    js = []
    js.append(Job("large_structured", len(large_graphs()) * 2, _large_chunk, None, chunk=1, describe="path and cycle on 70 nodes, a chain of 12 triangles joined by bridges, K7 with a tail and an isolated node, 6x6 grid; two node orders; all five functions"))
    js.append(Job("deep_closed_form", len(deep_graphs()) * 2, _deep_chunk, None, chunk=1, describe="a path of 3000 nodes, a chain of 130 bow-ties (650 nodes), a 1500-cycle with a tail of 1000: cut vertices, bridges and core numbers known in closed form; two node orders"))
    js.append(Job("structural_n7_subsets_of_declared_edges", 2 ** len(U7) * 3, _u7_chunk, None, describe=f"7 nodes, every subset of {U7}, 3 node orders"))
    js.append(Job("louvain_n4_mixed_listings", 4**6 * 2 * 3, _louvain_mixed_chunk, None, describe="each pair absent / listed by one endpoint / by the other / by both, 2 node orders x resolution {0.5,1,2}"))
    js.append(Job("louvain_n3_sequences", 40**3 * 3, _louvain_seq_chunk, None, describe="arbitrary neighbour sequences (self loops, duplicates, asymmetry) x resolution {0.5,1,2}"))
    for n in (1, 2, 3, 4, 5):
        js.append(Job(f"structural_n{n}_all_orders", 2 ** len(_pairs(n)) * math.factorial(n) * 2, _simple_chunk, (n, "all"), describe="all simple graphs x all node orders x asc/desc neighbour order: articulation_points, bridges, kcore_decomposition, kcore(k)"))
    js.append(Job("structural_n4_asymmetric", 4**6 * 24, _asym_chunk, 4, describe="each pair absent / listed by one endpoint / by the other / by both, all node orders"))
    js.append(Job("structural_n3_sequences", 40**3, _seq_chunk, None, describe="arbitrary neighbour sequences: self loops, duplicates, asymmetry"))
    js.append(Job("structural_outside_u4", 2**6 * len(DECL), _outside_chunk, None, describe="neighbours outside the declared node set"))
    for n in (1, 2, 3, 4):
        js.append(Job(f"pagerank_n{n}_all_digraphs", 2 ** (n * n) * 3, _pr_chunk, n, describe="all digraphs incl. self loops and dangling nodes x damping {0.15,0.5,0.85}; callback and _edges(python) variants"))
    js.append(Job("pagerank_n3_tolerances", 2**9 * 3 * len(PR_TOLS), _pr_tol_chunk, 3, describe=f"all digraphs on 3 nodes x damping {{0.15,0.5,0.85}} x tol in {PR_TOLS} with max_iter 20000: an OPTIMAL answer must satisfy the equation to within n*tol (residual computed exactly for tol < 1e-9)"))
    js.append(Job("pagerank_n3_sequences", 40**3 * 4, _pr_seq_chunk, None, describe="duplicate edges, declared subsets, max_iter=2"))
    for n in (2, 3, 4):
        js.append(Job(f"louvain_n{n}_all_orders", 2 ** len(_pairs(n)) * math.factorial(n) * 3, _louvain_chunk, (n, "all"), describe="all graphs x all node orders x resolution {0.5,1,2}"))
    js.append(Job("louvain_n5_two_orders", 2**10 * 2 * 3, _louvain_chunk, (5, "two"), describe="all graphs on 5 nodes, 2 node orders x resolution"))
    if tier == "thorough":
        js.append(Job("structural_n6_two_orders", 2**15 * 2 * 2, _simple_chunk, (6, "two"), describe="all graphs on 6 nodes, 2 node orders x 2 neighbour orders"))
        js.append(Job("louvain_n5_all_orders", 2**10 * 120 * 3, _louvain_chunk, (5, "all"), describe="all graphs on 5 nodes x all node orders"))
        js.append(Job("louvain_n6_two_orders", 2**15 * 2 * 3, _louvain_chunk, (6, "two"), describe="all graphs on 6 nodes"))
    return js


def replay(v):
    w = v["witness"]
    r = new_result()
    f = v["function"]
    if f == "pagerank":
        nodes = w.get("nodes") or list(range(w["n"]))
        errs, _, _ = judge_pagerank(nodes, w["adj"], w["damping"], max_iter=w.get("max_iter", 100), tol=w.get("tol", 1e-6), edges_variant=w.get("edges_variant", False), labelled=w.get("labelled") or False)
    elif f == "louvain":
        errs, _, _ = judge_louvain(w["nodes"], w["adj"], w["resolution"], labelled=w.get("labelled") or False)
    elif w.get("deep"):
        i = [g[0] for g in deep_graphs()].index(w["deep"]) * 2 + (1 if w.get("reversed") else 0)
        r = _deep_chunk(None, i, i + 1)
        for x in r["violations"]:
            if x["function"] == f:
                return x
        return None
    else:
        run_structural(r, len(w["adj"]), w["adj"], tuple(w["nodes"]), labelled=w.get("labelled") or False)
        for x in r["violations"]:
            if x["function"] == f:
                return x
        return None
    if errs:
        return {"function": f, "kind": errs[0][0], "detail": errs[0][1]}
    return None
