"""C13 - kruskal and prim return minimum spanning trees (engine E1)."""

from __future__ import annotations

import itertools
import math

from vf.combi import digits, fresh
from vf.guard import call as gcall, too_many_hangs
from vf.core import Job, new_result, viol

LEVEL = "exploration"
RULE = (
    "E1: every undirected weighted graph of each declared space (all graphs on <=4 nodes with per-pair weight in "
    "{absent,-1,0,1,2}, all graphs on 5 nodes over {absent,1,2}, self-loop family, ordered edge lists with duplicate "
    "edges) is given to kruskal (backend=python, allow_forest both, three edge orders and both endpoint orientations) "
    "and to prim (symmetric adjacency, every start node and the default, string labels). Oracle: minimum weight over "
    "all acyclic edge subsets of size n - #components. Non-trivial = at least two spanning forests of different weight "
    "exist. Cases are distinct by the injective index decode."
)
ASSUMPTIONS = [
    "n <= 5, weights small integers (exact float sums)",
    "prim is given a symmetric adjacency (the documented input form) with every node present as a key",
]


def components(n, pairs):
    comp = list(range(n))

    def find(x):
        while comp[x] != x:
            x = comp[x]
        return x

    for u, v in pairs:
        a, b = find(u), find(v)
        if a != b:
            comp[a] = b
    return len({find(x) for x in range(n)})


def oracle(n, edges):
    """(number of components, min spanning forest weight, nontrivial)"""
    best = {}
    for u, v, w in edges:
        if u == v:
            continue
        k = (min(u, v), max(u, v))
        if k not in best or w < best[k]:
            best[k] = w
    keys = list(best)
    nc = components(n, keys)
    need = n - nc
    weights = set()
    for sub in itertools.combinations(keys, need):
        if components(n, sub) == nc:
            weights.add(sum(best[k] for k in sub))
    return nc, min(weights), len(weights) > 1


def check_tree(n, edges, sol, objective, nc_expected, opt, who, is_input_edge):
    errs = []
    if sol is None:
        return [("no_solution", "solution is None")]
    if len(sol) != n - nc_expected:
        errs.append(("edge_count", f"{len(sol)} edges, expected {n - nc_expected}"))
    pool = list(edges)
    for e in sol:
        if not is_input_edge(e, pool):
            errs.append(("not_an_input_edge", f"edge {e} is not an edge of the input"))
            break
    pairs = [(e[0], e[1]) for e in sol]
    if components(n, pairs) != n - len(sol):
        errs.append(("cycle", f"returned edges {sol} contain a cycle"))
    if components(n, pairs) != nc_expected:
        errs.append(("not_spanning", f"returned edges leave {components(n, pairs)} components, graph has {nc_expected}"))
    tot = sum(e[2] for e in sol)
    if abs(tot - objective) > 1e-9:
        errs.append(("objective_not_sum", f"objective {objective}, edge weights sum to {tot}"))
    if not errs and abs(tot - opt) > 1e-9:
        errs.append(("not_minimum", f"weight {tot}, minimum is {opt}"))
    return errs


def _take(e, pool):
    t = tuple(e)
    for i, p in enumerate(pool):
        if tuple(p) == t:
            del pool[i]
            return True
    return False


def judge_kruskal(n, edges, allow_forest):
    from solvor.mst import kruskal
    from solvor.types import Status

    nc, opt, nt = oracle(n, edges)
    try:
        res = gcall(lambda: kruskal(n, [tuple(e) for e in edges], allow_forest=allow_forest, backend="python"))
    except Exception as ex:  # noqa: BLE001
        return [("raised", f"{type(ex).__name__}: {ex}")], "raised", nt
    errs = []
    if nc == 1:
        if res.status != Status.OPTIMAL:
            errs.append(("status", f"connected graph but status {res.status.name}"))
        else:
            errs += check_tree(n, edges, res.solution, res.objective, 1, opt, "kruskal", _take)
    elif not allow_forest:
        if res.status != Status.INFEASIBLE:
            errs.append(("status", f"disconnected graph, allow_forest=False, status {res.status.name}"))
    else:
        if res.status != Status.FEASIBLE:
            errs.append(("status", f"disconnected graph, allow_forest=True, status {res.status.name} (expected FEASIBLE)"))
        else:
            errs += check_tree(n, edges, res.solution, res.objective, nc, opt, "kruskal", _take)
    return errs, f"{res.status.name}/nc{min(nc, 3)}", nt


def judge_prim(n, edges, start, labels):
    from solvor.mst import prim
    from solvor.types import Status

    lab = (lambda x: fresh(labels[x])) if labels else (lambda x: x)
    nc, opt, nt = oracle(n, edges)
    g = {lab(x): [] for x in range(n)}
    for u, v, w in edges:
        g[lab(u)].append((lab(v), w))
        if u != v:
            g[lab(v)].append((lab(u), w))
    try:
        res = gcall(lambda: prim(g) if start is None else prim(g, start=lab(start)))
    except Exception as ex:  # noqa: BLE001
        return [("raised", f"{type(ex).__name__}: {ex}")], "raised", nt
    errs = []
    inv = {lab(x): x for x in range(n)}
    if nc == 1:
        if res.status != Status.OPTIMAL:
            errs.append(("status", f"connected graph but status {res.status.name}"))
        else:
            try:
                sol = [(inv[a], inv[b], w) for a, b, w in res.solution]
            except Exception:  # noqa: BLE001
                return [("not_an_input_edge", f"solution {res.solution} mentions unknown nodes")], "bad", nt

            def is_in(e, pool):
                return _take(e, pool) or _take((e[1], e[0], e[2]), pool)

            errs += check_tree(n, edges, sol, res.objective, 1, opt, "prim", is_in)
    else:
        if res.status != Status.INFEASIBLE:
            errs.append(("status", f"disconnected graph, status {res.status.name}"))
    return errs, f"{res.status.name}/nc{min(nc, 3)}", nt


def run_graph(r, n, edges, kruskal_orders=True, prim_starts=True, labels=None):
    wit_base = {"n": n, "edges": [list(e) for e in edges]}
    variants = [("canonical", edges)]
    if kruskal_orders and len(edges) > 1:
        variants.append(("reversed", list(reversed(edges))))
        variants.append(("weight_desc", sorted(edges, key=lambda e: -e[2])))
        variants.append(("flipped", [(v, u, w) for u, v, w in edges]))
    for vname, ed in variants:
        for af in (False, True):
            errs, label, nt = judge_kruskal(n, ed, af)
            r["n"] += 1
            r["outcomes"]["kruskal:" + label] += 1
            if nt:
                r["nontrivial"] += 1
            for kind, detail in errs:
                wit = dict(wit_base, function="kruskal", edges=[list(e) for e in ed], allow_forest=af)
                r["violations"].append(viol("kruskal", kind, wit, f"kruskal({n}, {ed}, allow_forest={af}): {detail}"))
    starts = [None] + (list(range(n)) if prim_starts else [])
    for st in starts:
        errs, label, nt = judge_prim(n, edges, st, labels)
        r["n"] += 1
        r["outcomes"]["prim:" + label] += 1
        if nt:
            r["nontrivial"] += 1
        for kind, detail in errs:
            wit = dict(wit_base, function="prim", start=st, labels=labels)
            r["violations"].append(viol("prim", kind, wit, f"prim(symmetric adjacency of {edges} on {n} nodes, start={st}, labels={labels}): {detail}"))
    if not r["samples"]:
        r["samples"].append(wit_base)


def _pairs(n):
    return [(u, v) for u in range(n) for v in range(u + 1, n)]


def _simple_chunk(params, lo, hi):
    n, alpha, labels = params
    pairs = _pairs(n)
    r = new_result()
    for idx in range(lo, hi):
        ds = digits(idx, len(alpha), len(pairs))
        edges = [(pairs[i][0], pairs[i][1], alpha[d]) for i, d in enumerate(ds) if alpha[d] is not None]
        run_graph(r, n, edges, labels=(MIXED if idx % 4 == 3 else (BIG if idx % 8 == 5 else labels)) if idx % 2 else None)
        if len(r["violations"]) >= 40 or too_many_hangs():
            r["capped"] = True
            break
    return r


def _loops_chunk(params, lo, hi):
    """n=3: pairs over {absent,-1,0,1,2} x self loop per node in {absent,-1,1}"""
    alpha = (None, -1, 0, 1, 2)
    la = (None, -1, 1)
    pairs = _pairs(3)
    r = new_result()
    for idx in range(lo, hi):
        ds = digits(idx, 5, 3)
        ls = digits(idx // 125, 3, 3)
        edges = [(x, x, la[d]) for x, d in enumerate(ls) if la[d] is not None]
        edges += [(pairs[i][0], pairs[i][1], alpha[d]) for i, d in enumerate(ds) if alpha[d] is not None]
        run_graph(r, 3, edges)
        if len(r["violations"]) >= 40 or too_many_hangs():
            r["capped"] = True
            break
    return r


def _dup_chunk(params, lo, hi):
    """ordered edge lists (duplicates, both orientations) of exactly L edges"""
    n, L, ws = params
    opts = [(u, v, w) for u in range(n) for v in range(n) if u != v for w in ws]
    r = new_result()
    for idx in range(lo, hi):
        ds = digits(idx, len(opts), L)
        edges = [opts[d] for d in ds]
        run_graph(r, n, edges, kruskal_orders=False, prim_starts=(L <= 3))
        if len(r["violations"]) >= 40 or too_many_hangs():
            r["capped"] = True
            break
    return r


A5 = (None, -1, 0, 1, 2)
STR = ["a", "b", "c", "d", "e"]
MIXED = [None, 0, "", (1,), 2.5]  # falsy / None / tuple / float labels
BIG = [-1, -2, (1, (2, 3)), 2.5, 1000]  # labels of which equal copies are distinct objects (see vf.combi.fresh)


def _multi3_chunk(params, lo, hi):
    """3 nodes as a multigraph: 0..8 self loops on node 0, 0..2 on node 1, and for each of the three pairs every subset of
    parallel edges with weights {1,2,3}: many queue entries per node (the frontier outgrows any small multiple of n).
    index = ((m0*3 + m1)*8 + s01)*64 + s02*8 + s12"""
    subsets = [tuple(w for w in (3, 1, 2) if m >> (w - 1) & 1) for m in range(8)]
    r = new_result()
    for idx in range(lo, hi):
        s12 = subsets[idx % 8]
        s02 = subsets[idx // 8 % 8]
        s01 = subsets[idx // 64 % 8]
        m1 = idx // 512 % 3
        m0 = idx // 1536
        edges = [(0, 0, 1)] * m0 + [(1, 1, 1)] * m1 + [(0, 1, w) for w in s01] + [(0, 2, w) for w in s02] + [(1, 2, w) for w in s12]
        run_graph(r, 3, edges, kruskal_orders=False)
        if len(r["violations"]) >= 40 or too_many_hangs():
            r["capped"] = True
            break
    return r


def _multi14_chunk(params, lo, hi):
    """3 nodes, 14 edges: five parallel edges 0-1, five 0-2, four 1-2, every weight assignment over {1,2,3}; prim from node 0
    holds up to 13 queue entries at once. index = base-3 code of the 14 weights"""
    r = new_result()
    shape = [(0, 1)] * 5 + [(0, 2)] * 5 + [(1, 2)] * 4
    for idx in range(lo, hi):
        ws = digits(idx, 3, 14)
        edges = [(u, v, 1 + w) for (u, v), w in zip(shape, ws)]
        errs, label, nt = judge_prim(3, edges, 0, None)
        r["n"] += 1
        r["outcomes"]["prim14:" + label] += 1
        if nt:
            r["nontrivial"] += 1
        for kind, detail in errs:
            wit = {"n": 3, "edges": [list(e) for e in edges], "function": "prim", "start": 0, "labels": None}
            r["violations"].append(viol("prim", kind, wit, f"prim(symmetric adjacency of {edges} on 3 nodes, start=0): {detail}"))
        if not r["samples"]:
            r["samples"].append({"n": 3, "edges": [list(e) for e in edges]})
        if len(r["violations"]) >= 40 or too_many_hangs():
            r["capped"] = True
            break
    return r


def _multi14_block(params, lo, hi):
    return _multi14_chunk(None, params + lo, params + hi)


def large_graphs():
    """larger structured graphs (name, n, edges): path, cycle, grid and complete graphs with modular weights"""
    out = []
    n = 70
    out.append(("path70", n, [(i, i + 1, i % 5 + 1) for i in range(n - 1)]))
    out.append(("cycle70", n, [(i, (i + 1) % n, (i * 3) % 7 + 1) for i in range(n)]))
    g = 8
    ge = []
    for i in range(g):
        for j in range(g):
            if j + 1 < g:
                ge.append((i * g + j, i * g + j + 1, (i * 3 + j * 5) % 7 + 1))
            if i + 1 < g:
                ge.append((i * g + j, (i + 1) * g + j, (i * 5 + j * 3) % 7 + 1))
    out.append(("grid8x8", g * g, ge))
    for k, (a, b, m) in ((11, (1, 3, 17)), (12, (3, 1, 19)), (13, (2, 2, 17))):
        out.append((f"K{k}", k, [(i, j, (a * i * j + b * (i + j)) % m + 1) for i in range(k) for j in range(i + 1, k)]))
    # dense graphs on which a lazy Prim queue holds several hundred entries (one per crossing edge ever seen)
    out.append(("K36_quadratic_weights", 36, [(i, j, 1 + (i * i + 3 * j * j + i * j) % 97) for i in range(36) for j in range(i + 1, 36)]))
    out.append(("K64_quadratic_weights", 64, [(i, j, 1 + (i * i + 3 * j * j + i * j) % 997) for i in range(64) for j in range(i + 1, 64)]))
    out.append(("K60_distance_weights", 60, [(i, j, j - i) for i in range(60) for j in range(i + 1, 60)]))
    out.append(("three_nodes_270_parallel_edges", 3, [(0, 1, 1000 - k) for k in range(130)] + [(1, 2, 500 + (k * 7) % 131) for k in range(130)] + [(0, 2, 1 + k) for k in range(10)]))
    out.append(("two_K6_and_isolated", 13, [(i, j, (i + j) % 4 + 1) for i in range(6) for j in range(i + 1, 6)] + [(6 + i, 6 + j, (i * j) % 4 + 1) for i in range(6) for j in range(i + 1, 6)]))
    return out


def deep_only():
    """graphs for kruskal / prim only (too large for the all-pairs functions that share large_graphs()): a chain whose
    edges name the new node first, closed by a heavier edge that asks for the far end of the chain last"""
    n = 1500
    return [("back_pointing_chain_1500", n, [(i + 1, i, 1) for i in range(n - 2)] + [(0, n - 1, 2)])]


def all_large():
    return large_graphs() + deep_only()


def naive_msf(n, edges):
    """(components, minimum spanning forest weight) by Kruskal with a plain label array (reference model)"""
    label = list(range(n))
    tot = 0
    for u, v, w in sorted(edges, key=lambda e: e[2]):
        if label[u] != label[v]:
            old, new_ = label[v], label[u]
            label = [new_ if x == old else x for x in label]
            tot += w
    return len(set(label)), tot


def _large_chunk(params, lo, hi):
    from solvor.mst import kruskal, prim
    from solvor.types import Status

    gs = all_large()
    r = new_result()
    for idx in range(lo, hi):
        name, n, edges0 = gs[idx // 3]
        variant = idx % 3
        edges = list(edges0) if variant == 0 else (list(reversed(edges0)) if variant == 1 else [(v, u, w) for u, v, w in edges0])
        nc, opt = naive_msf(n, edges)
        wit = {"function": "large", "graph": name, "variant": variant}
        runs = [("kruskal", lambda: kruskal(n, [tuple(e) for e in edges], allow_forest=True, backend="python"))]
        adj = {x: [] for x in range(n)}
        for u, v, w in edges:
            adj[u].append((v, w))
            adj[v].append((u, w))
        runs.append(("prim", lambda: prim(adj)))
        runs.append(("prim_from_last", lambda: prim(adj, start=n - 1)))
        if n >= 3:
            runs.append(("prim_from_middle", lambda: prim(adj, start=n // 2)))
            runs.append(("prim_from_third", lambda: prim(adj, start=n // 3)))
        if n >= 30 and len(edges) > 4 * n:  # dense graphs: the queue's history depends on where the search starts
            for st in range(1, n, 8):
                runs.append((f"prim_from_{st}", lambda st=st: prim(adj, start=st)))
        for fname, fn in runs:
            r["n"] += 1
            r["nontrivial"] += 1
            try:
                res = gcall(fn, 10.0, 100_000_000)
            except Exception as ex:  # noqa: BLE001
                r["violations"].append(viol(fname.split("_")[0], "raised", dict(wit, run=fname), f"{fname} on {name} (variant {variant}): {type(ex).__name__}: {ex}"))
                continue
            r["outcomes"][f"large:{fname}:{res.status.name}"] += 1
            errs = []
            if fname == "kruskal":
                want_status = Status.OPTIMAL if nc == 1 else Status.FEASIBLE
            else:
                want_status = Status.OPTIMAL if nc == 1 else Status.INFEASIBLE
            if res.status != want_status:
                errs.append(("status", f"status {res.status.name}, expected {want_status.name} ({nc} components)"))
            elif res.solution is not None:
                pool = list(edges)

                def is_in(e, pool):
                    return _take(e, pool) or _take((e[1], e[0], e[2]), pool)

                errs += check_tree(n, edges, [tuple(e) for e in res.solution], res.objective, nc, opt, fname, is_in)
            for kind, detail in errs[:2]:
                r["violations"].append(viol(fname.split("_")[0], kind, dict(wit, run=fname), f"{fname} on {name} (variant {variant}): {detail}"))
        if not r["samples"]:
            r["samples"].append(wit)
    return r


K8_PAIRS = [(0, 1), (2, 3), (4, 5), (6, 7), (1, 3), (5, 7), (3, 7), (0, 6), (2, 5), (6, 1)]


def _k8_chunk(params, lo, hi):
    """kruskal on 8 nodes: every ordered list of k distinct pairs of K8_PAIRS, weights increasing with the list position
    (so the solver meets the edges in list order): the union-find inside kruskal builds trees of rank 2-3, joins them
    through non-root members and closes cycles. index -> permutation by the factorial number system."""
    k = params
    m = len(K8_PAIRS)
    r = new_result()
    for idx in range(lo, hi):
        pool = list(range(m))
        x = idx
        seq = []
        for i in range(k):
            seq.append(pool.pop(x % (m - i)))
            x //= m - i
        edges = [(K8_PAIRS[j][0], K8_PAIRS[j][1], pos + 1) for pos, j in enumerate(seq)]
        errs, label, nt = judge_kruskal(8, edges, True)
        r["n"] += 1
        r["outcomes"]["kruskal8:" + label] += 1
        if nt:
            r["nontrivial"] += 1
        if not r["samples"]:
            r["samples"].append({"n": 8, "edges": [list(e) for e in edges]})
        for kind, detail in errs:
            wit = {"function": "kruskal", "n": 8, "edges": [list(e) for e in edges], "allow_forest": True}
            r["violations"].append(viol("kruskal", kind, wit, f"kruskal(8, {edges}, allow_forest=True): {detail}"))
        if len(r["violations"]) >= 40 or too_many_hangs():
            r["capped"] = True
            break
    return r


def jobs(tier, seed):
    js = []
    k8 = 8 if tier == "thorough" else 7
    js.append(Job(f"n8_ordered_lists_of_{k8}_of_10_pairs", math.perm(len(K8_PAIRS), k8), _k8_chunk, k8, describe=f"kruskal(8, ...) on every ordered list of {k8} distinct pairs out of {K8_PAIRS}, weight = list position"))
    for n in (1, 2, 3, 4):
        js.append(Job(f"n{n}_over_absent-1012", 5 ** len(_pairs(n)), _simple_chunk, (n, A5, STR), describe="all graphs, per-pair weight in {absent,-1,0,1,2}; odd indices use string labels (every 4th: None/falsy/tuple/float labels) for prim"))
    js.append(Job("large_structured", len(all_large()) * 3, _large_chunk, None, chunk=1, describe="path and cycle on 70 nodes, 8x8 grid, K11..K13 with modular weights, two K6 plus an isolated node; three edge-list variants; kruskal, prim from the default and from the last node; reference: Kruskal over a label array"))
    js.append(Job("n3_multigraph_many_parallel", 9 * 3 * 512, _multi3_chunk, None, describe="3 nodes, up to 8+2 self loops and up to 3 parallel edges per pair with weights {1,2,3}"))
    js.append(Job("n3_selfloops", 125 * 27, _loops_chunk, None, describe="3 nodes with optional self loops of weight -1/1"))
    for L in (1, 2, 3, 4):
        js.append(Job(f"n3_edgelists_len{L}", 18**L, _dup_chunk, (3, L, (1, 2, 5)), describe="ordered edge lists with duplicate/anti-parallel edges, weights {1,2,5}"))
    for L in (1, 2, 3):
        js.append(Job(f"n4_edgelists_len{L}", 24**L, _dup_chunk, (4, L, (1, 2)), describe="ordered edge lists on 4 nodes, weights {1,2}"))
    if tier == "thorough":
        js.append(Job("n3_14_parallel_edges", 3**14, _multi14_chunk, None, describe="3 nodes, 5+5+4 parallel edges, every weight assignment over {1,2,3}, prim from node 0 (13 queue entries at once)"))
        js.append(Job("n5_over_absent012", 4**10, _simple_chunk, (5, (None, 0, 1, 2), STR), describe="all graphs on 5 nodes over {absent,0,1,2}"))
        js.append(Job("n4_edgelists_len4", 24**4, _dup_chunk, (4, 4, (1, 2)), describe="ordered edge lists on 4 nodes, 4 edges"))
    else:
        b = seed % 32
        js.append(Job(f"n3_14_parallel_edges_block{b}of32", 3**14 // 32, _multi14_block, b * (3**14 // 32), describe="rotating 1/32 block (VERIF_SEED) of: 3 nodes, 5+5+4 parallel edges, every weight assignment over {1,2,3}, prim from node 0"))
        js.append(Job("n5_over_absent12", 3**10, _simple_chunk, (5, (None, 1, 2), STR), describe="all graphs on 5 nodes over {absent,1,2}"))
    return js


def replay(v):
    w = v["witness"]
    if w.get("function") == "large":
        names = [g[0] for g in all_large()]
        i = names.index(w["graph"]) * 3 + w["variant"]
        rr = _large_chunk(None, i, i + 1)
        for x in rr["violations"]:
            if x["witness"].get("run") == w.get("run"):
                return x
        return None
    edges = [tuple(e) for e in w["edges"]]
    if w["function"] == "kruskal":
        errs, _, _ = judge_kruskal(w["n"], edges, w["allow_forest"])
    else:
        errs, _, _ = judge_prim(w["n"], edges, w["start"], w.get("labels"))
    if errs:
        return {"function": w["function"], "kind": errs[0][0], "detail": errs[0][1]}
    return None
