"""Exact LP oracle (fractions.Fraction, vertex enumeration) for  min/max c.x  s.t.  Ax <= b, x >= 0.

The polyhedron is pointed (x >= 0), so: feasible <=> some basic solution is feasible; unbounded <=> feasible and the
normalised recession cone {d >= 0, Ad <= 0, sum d = 1} has a vertex with c.d < 0 (min); otherwise the optimum is the best
feasible vertex. Self-check: the dual solved the same way must agree exactly (strong duality / Farkas alternatives).
"""

from __future__ import annotations

import itertools
from fractions import Fraction


class OracleBroken(Exception):
    pass


def solve_square(M, rhs):
    """Gaussian elimination over Fractions; returns x or None if singular."""
    n = len(M)
    a = [list(map(Fraction, M[i])) + [Fraction(rhs[i])] for i in range(n)]
    for col in range(n):
        piv = None
        for r in range(col, n):
            if a[r][col] != 0:
                piv = r
                break
        if piv is None:
            return None
        a[col], a[piv] = a[piv], a[col]
        pv = a[col][col]
        a[col] = [v / pv for v in a[col]]
        for r in range(n):
            if r != col and a[r][col] != 0:
                f = a[r][col]
                a[r] = [v - f * w for v, w in zip(a[r], a[col])]
    return [a[i][n] for i in range(n)]


def vertices(A, b, n):
    """All feasible basic solutions of {Ax <= b, x >= 0}."""
    m = len(A)
    rows = [(list(A[i]), b[i]) for i in range(m)] + [([-1 if j == k else 0 for j in range(n)], 0) for k in range(n)]
    out = []
    seen = set()
    for comb in itertools.combinations(range(m + n), n):
        x = solve_square([rows[i][0] for i in comb], [rows[i][1] for i in comb])
        if x is None:
            continue
        key = tuple(x)
        if key in seen:
            continue
        if all(sum(Fraction(r[0][j]) * x[j] for j in range(n)) <= r[1] for r in rows):
            seen.add(key)
            out.append(x)
    return out


def recession_vertices(A, n):
    """Vertices of {d >= 0, Ad <= 0, sum d = 1}."""
    m = len(A)
    rows = [(list(A[i]), 0) for i in range(m)] + [([-1 if j == k else 0 for j in range(n)], 0) for k in range(n)]
    out = []
    seen = set()
    for comb in itertools.combinations(range(m + n), n - 1):
        M = [rows[i][0] for i in comb] + [[1] * n]
        rhs = [0] * (n - 1) + [1]
        d = solve_square(M, rhs)
        if d is None:
            continue
        key = tuple(d)
        if key in seen:
            continue
        if all(sum(Fraction(r[0][j]) * d[j] for j in range(n)) <= 0 for r in rows):
            seen.add(key)
            out.append(d)
    return out


def classify(c, verts, rec, minimize=True):
    """('INFEASIBLE'|'UNBOUNDED'|'OPTIMAL', value or None)"""
    if not verts:
        return "INFEASIBLE", None
    sgn = 1 if minimize else -1
    for d in rec:
        if sgn * sum(Fraction(c[j]) * d[j] for j in range(len(c))) < 0:
            return "UNBOUNDED", None
    vals = [sum(Fraction(c[j]) * x[j] for j in range(len(c))) for x in verts]
    return "OPTIMAL", (min(vals) if minimize else max(vals))


def solve_exact(c, A, b, minimize=True, self_check=True):
    n = len(c)
    verts = vertices(A, b, n)
    rec = recession_vertices(A, n)
    st, val = classify(c, verts, rec, minimize)
    if self_check:
        # dual of  min c.x, Ax<=b, x>=0   is   min b.z, -A^T z <= c, z >= 0  with optimum -v*
        cc = list(c) if minimize else [-v for v in c]
        m = len(A)
        At = [[-A[i][j] for i in range(m)] for j in range(n)]
        dst, dval = classify(list(b), vertices(At, cc, m), recession_vertices(At, m), True)
        pv = None if val is None else (val if minimize else -val)
        ok = (
            (st == "OPTIMAL" and dst == "OPTIMAL" and dval == -pv)
            or (st == "UNBOUNDED" and dst == "INFEASIBLE")
            or (st == "INFEASIBLE" and dst in ("UNBOUNDED", "INFEASIBLE"))
        )
        if not ok:
            raise OracleBroken(f"duality self-check failed for c={c} A={A} b={b} min={minimize}: primal {st} {val}, dual {dst} {dval}")
    return st, val
