"""C03 - LP verdicts and optima are exact (simplex; interior point when it says OPTIMAL). Engine E1."""

from __future__ import annotations

import math
from fractions import Fraction

from vf import lpref
from vf.combi import digits
from vf.guard import call as gcall, too_many_hangs
from vf.core import HarnessError, Job, new_result, viol

LEVEL = "exploration"
RULE = (
    "E1: every LP  min/max c.x, Ax<=b, x>=0  of each declared shape (n variables, m rows) over the declared coefficient "
    "alphabets (zero rows/columns, parallel and duplicate rows, negative right-hand sides, ratio-test ties and degenerate "
    "vertices all occur by construction) is solved by the real solve_lp and solve_lp_interior. Oracle: exact rational "
    "vertex enumeration with a duality self-check. Non-trivial = the exact verdict is INFEASIBLE or UNBOUNDED, or phase 1 "
    "is needed (some b_i < 0), or the optimum is attained at a vertex other than the origin."
)
ASSUMPTIONS = [
    "shapes up to 3x3, integer coefficients in {-2..3} (dyadic 1/2 in thorough): 'well-scaled' LPs only",
    "tolerances: feasibility 1e-7, objective 1e-7*(1+|v*|) for simplex; 1e-6 / 1e-5*(1+|v*|) for interior-point OPTIMAL; "
    "0.01 residual for interior-point FEASIBLE",
    "MAX_ITER from solve_lp is exempt by the statement and is only counted",
]

A4 = (-1, 0, 1, 2)
B5 = (-2, -1, 0, 1, 2)
C4 = (-1, 0, 1, 2)
T3 = (-1, 0, 1)
D4 = (-1, 0, Fraction(1, 2), 1)


def _decode(idx, n, m, aa, ba, ca):
    minimize = idx % 2 == 0
    k = idx // 2
    nc = len(ca) ** n
    cc = k % nc
    k //= nc
    nb = len(ba) ** m
    bc = k % nb
    ac = k // nb
    A = [[aa[d] for d in digits(ac, len(aa), n * m)[i * n : (i + 1) * n]] for i in range(m)]
    b = [ba[d] for d in digits(bc, len(ba), m)]
    c = [ca[d] for d in digits(cc, len(ca), n)]
    return A, b, c, minimize, (ac, bc)


def check_simplex(res, A, b, c, minimize, st, val):
    from solvor.types import Status

    errs = []
    name = res.status.name
    if res.status == Status.MAX_ITER:
        return errs
    if name != st:
        errs.append(("wrong_status", f"status {name}, exact verdict {st}" + (f" with optimum {val}" if val is not None else "")))
        return errs
    if st == "OPTIMAL":
        x = res.solution
        n = len(c)
        if len(x) != n:
            return [("shape", f"solution {x}")]
        for j in range(n):
            if not (x[j] >= -1e-7):
                errs.append(("negative_variable", f"x={x}"))
                break
        for i in range(len(A)):
            if sum(float(A[i][j]) * x[j] for j in range(n)) > float(b[i]) + 1e-7:
                errs.append(("constraint_violated", f"row {i}: {A[i]}.x = {sum(float(A[i][j]) * x[j] for j in range(n))} > {b[i]} at x={x}"))
                break
        cx = sum(float(c[j]) * x[j] for j in range(n))
        tol = 1e-7 * (1 + abs(float(val)))
        if abs(cx - res.objective) > tol:
            errs.append(("objective_not_cx", f"objective {res.objective}, c.x = {cx}"))
        if abs(res.objective - float(val)) > tol:
            errs.append(("wrong_optimum", f"objective {res.objective}, exact optimum {val}"))
    return errs


def check_interior(res, A, b, c, minimize, st, val):
    from solvor.types import Status

    errs = []
    n = len(c)
    x = res.solution
    if res.status == Status.OPTIMAL:
        if st != "OPTIMAL":
            return [("optimal_without_optimum", f"status OPTIMAL but the LP is {st}")]
        if any(not (x[j] >= -1e-6) for j in range(n)):
            errs.append(("negative_variable", f"x={x}"))
        for i in range(len(A)):
            if not (sum(float(A[i][j]) * x[j] for j in range(n)) <= float(b[i]) + 1e-6):
                errs.append(("constraint_violated", f"row {i} violated at x={x}"))
                break
        tol = 1e-5 * (1 + abs(float(val)))
        cx = sum(float(c[j]) * x[j] for j in range(n))
        if not abs(cx - res.objective) <= tol:
            errs.append(("objective_not_cx", f"objective {res.objective}, c.x = {cx}"))
        if not abs(res.objective - float(val)) <= tol:
            errs.append(("wrong_optimum", f"status OPTIMAL with objective {res.objective}, exact optimum {val}"))
    elif res.status == Status.FEASIBLE:
        if any(not (x[j] >= 0) for j in range(n)):
            errs.append(("negative_variable", f"FEASIBLE with x={x}"))
        viol2 = 0.0
        for i in range(len(A)):
            ex = sum(float(A[i][j]) * x[j] for j in range(n)) - float(b[i])
            if not ex <= 0:
                viol2 += ex * ex if ex == ex else float("inf")
        if not math.sqrt(viol2) < 0.01:
            errs.append(("feasible_but_residual", f"status FEASIBLE but the constraint violation norm is {math.sqrt(viol2)} at x={x}"))
    elif res.status not in (Status.MAX_ITER, Status.INFEASIBLE, Status.UNBOUNDED):
        errs.append(("status", f"status {res.status.name}"))
    elif res.status == Status.INFEASIBLE and st != "INFEASIBLE":
        errs.append(("wrong_status", f"INFEASIBLE but the LP is {st}"))
    elif res.status == Status.UNBOUNDED and st != "UNBOUNDED":
        errs.append(("wrong_status", f"UNBOUNDED but the LP is {st}"))
    return errs


def _chunk(params, lo, hi):
    n, m, aa, ba, ca, solver, off = params
    from solvor.interior_point import solve_lp_interior
    from solvor.simplex import solve_lp

    r = new_result()
    cache_key = None
    verts = rec = None
    rec_key = None
    for idx in range(lo, hi):
        A, b, c, minimize, key = _decode(idx + off, n, m, aa, ba, ca)
        try:
            if key[0] != rec_key:
                rec = lpref.recession_vertices(A, n)
                rec_key = key[0]
            if key != cache_key:
                verts = lpref.vertices(A, b, n)
                cache_key = key
            st, val = lpref.classify(c, verts, rec, minimize)
            if (idx + off) % 97 == 0:
                st2, val2 = lpref.solve_exact(c, A, b, minimize, self_check=True)
                if (st2, val2) != (st, val):
                    raise lpref.OracleBroken("cached oracle disagrees with direct oracle")
        except lpref.OracleBroken as e:
            raise HarnessError(str(e))
        fA = [[float(v) for v in row] for row in A]
        fb = [float(v) for v in b]
        fc = [float(v) for v in c]
        nontrivial = st != "OPTIMAL" or any(v < 0 for v in b) or (val is not None and val != 0)
        wit = {"c": [str(v) for v in c], "A": [[str(v) for v in row] for row in A], "b": [str(v) for v in b], "minimize": minimize}
        runs = [("solve_lp", solve_lp, check_simplex, {}), ("solve_lp_interior", solve_lp_interior, check_interior, {})]
        if (idx + off) % 4 == 0:
            # tiny iteration budgets: the answer may be MAX_ITER (exempt) but never a wrong verdict
            runs += [("solve_lp", solve_lp, check_simplex, {"max_iter": k}) for k in (1, 2, 3)]
            runs += [("solve_lp_interior", solve_lp_interior, check_interior, {"max_iter": k}) for k in (1, 2, 4, 8)]
            # looser tolerances: the documented claims (OPTIMAL only with a matching optimum within the solver's tolerance,
            # FEASIBLE only within the 0.01 residual) are stated independently of eps
            runs += [("solve_lp_interior", solve_lp_interior, check_interior, {"eps": 1e-6, "max_iter": 8}), ("solve_lp_interior", solve_lp_interior, check_interior, {"eps": 1e-6, "max_iter": 3})]
            runs += [("solve_lp", solve_lp, check_simplex, {"eps": 1e-7})]
        for fname, fn, chk, kw in runs:
            if solver != "both" and solver != fname:
                continue
            r["n"] += 1
            if nontrivial:
                r["nontrivial"] += 1
            if kw:
                wit = dict(wit, **kw)
            try:
                res = gcall(lambda: fn(fc, fA, fb, minimize=minimize, **kw), 5.0, 50_000_000)
            except Exception as ex:  # noqa: BLE001
                r["outcomes"][fname + ":raised"] += 1
                r["violations"].append(viol(fname, "raised", wit, f"{fname}(c={c}, A={A}, b={b}, minimize={minimize}): {type(ex).__name__}: {ex}"))
                continue
            r["outcomes"][f"{fname}:{res.status.name}/exact:{st}"] += 1
            if res.status.name == "MAX_ITER" and fname == "solve_lp":
                r["counters"]["simplex_max_iter_cycling_suspects"] += 1
            for kind, detail in chk(res, A, b, c, minimize, st, val):
                r["violations"].append(viol(fname, kind, wit, f"{fname}(c={c}, A={A}, b={b}, minimize={minimize}{', ' + str(kw) if kw else ''}): {detail}"))
        if not r["samples"]:
            r["samples"].append(wit)
        if len(r["violations"]) >= 40 or too_many_hangs():
            r["capped"] = True
            break
    return r


def large_lps():
    """larger LPs whose optimum is known in closed form: (name, c, A, b, minimize, optimum)"""
    import itertools as it

    out = []
    n = 12
    c = [((3 * j) % 7) - 3 for j in range(n)]
    u = [1 + j % 4 for j in range(n)]
    A = [[1 if k == j else 0 for k in range(n)] for j in range(n)]
    out.append(("box12_max", c, A, u, False, sum(max(cj, 0) * uj for cj, uj in zip(c, u))))
    out.append(("box12_min", c, A, u, True, sum(min(cj, 0) * uj for cj, uj in zip(c, u))))
    for k in (4, 5, 6):  # Klee-Minty cube: max sum 2^(k-j) x_j, optimum 5^k at (0,...,0,5^k)
        A = [[(2 ** (i - j + 1) if j < i else (1 if j == i else 0)) for j in range(k)] for i in range(k)]
        b = [5 ** (i + 1) for i in range(k)]
        c = [2 ** (k - 1 - j) for j in range(k)]
        out.append((f"klee_minty_{k}", c, A, b, False, 5**k))
    for m in (3, 4):  # assignment polytope: every row and column sums to exactly 1 (<= and >= rows), integral vertices
        cost = [[(3 * i + 5 * j + i * j) % 7 + 1 for j in range(m)] for i in range(m)]
        A, b = [], []
        for i in range(m):
            row = [1 if k // m == i else 0 for k in range(m * m)]
            A += [row, [-x for x in row]]
            b += [1, -1]
        for j in range(m):
            col = [1 if k % m == j else 0 for k in range(m * m)]
            A += [col, [-x for x in col]]
            b += [1, -1]
        flat = [cost[i][j] for i in range(m) for j in range(m)]
        sums = [sum(cost[i][p[i]] for i in range(m)) for p in it.permutations(range(m))]
        out.append((f"assignment_polytope_{m}x{m}_min", flat, A, b, True, min(sums)))
        out.append((f"assignment_polytope_{m}x{m}_max", flat, A, b, False, max(sums)))
    return out


def _large_chunk(params, lo, hi):
    from solvor.interior_point import solve_lp_interior
    from solvor.simplex import solve_lp
    from solvor.types import Status

    cases = large_lps()
    r = new_result()
    for idx in range(lo, hi):
        name, c, A, b, minimize, opt = cases[idx]
        fA = [[float(x) for x in row] for row in A]
        fb = [float(x) for x in b]
        fc = [float(x) for x in c]
        for fname, fn in (("solve_lp", solve_lp), ("solve_lp_interior", solve_lp_interior)):
            wit = {"large": name, "function": fname}
            r["n"] += 1
            r["nontrivial"] += 1
            try:
                res = gcall(lambda: fn(fc, fA, fb, minimize=minimize), 30.0, 300_000_000)
            except Exception as ex:  # noqa: BLE001
                r["violations"].append(viol(fname, "raised", wit, f"{fname} on {name}: {type(ex).__name__}: {ex}"))
                continue
            r["outcomes"][f"large:{fname}:{res.status.name}"] += 1
            if fname == "solve_lp" and res.status != Status.OPTIMAL:
                r["violations"].append(viol(fname, "wrong_status", wit, f"{fname} on {name}: status {res.status.name}, the LP has the finite optimum {opt}"))
                continue
            if res.status == Status.OPTIMAL:
                x = res.solution
                tol = 1e-6 * (1 + abs(opt)) if fname == "solve_lp" else 1e-4 * (1 + abs(opt))
                cx = sum(cj * xj for cj, xj in zip(c, x))
                worst = max([sum(a * xj for a, xj in zip(row, x)) - bi for row, bi in zip(A, b)] + [-xj for xj in x])
                if worst > 1e-6 * (1 + max(abs(v) for v in b)):
                    r["violations"].append(viol(fname, "constraint_violated", wit, f"{fname} on {name}: constraint violation {worst:.3g} at the returned point"))
                elif abs(cx - res.objective) > tol or abs(res.objective - opt) > tol:
                    r["violations"].append(viol(fname, "wrong_optimum", wit, f"{fname} on {name}: objective {res.objective} (c.x = {cx}), the optimum is {opt}"))
            elif res.status in (Status.INFEASIBLE, Status.UNBOUNDED):
                r["violations"].append(viol(fname, "wrong_status", wit, f"{fname} on {name}: status {res.status.name}, the LP has the finite optimum {opt}"))
        if not r["samples"]:
            r["samples"].append({"large": name})
    return r


def _size(n, m, aa, ba, ca):
    return len(aa) ** (n * m) * len(ba) ** m * len(ca) ** n * 2


def _job(name, n, m, aa, ba, ca, solver, lo=0, hi=None, describe=""):
    size = _size(n, m, aa, ba, ca)
    hi = size if hi is None else hi
    return Job(name, hi - lo, _chunk, (n, m, aa, ba, ca, solver, lo), describe=describe or f"n={n} variables, m={m} rows, A over {aa}, b over {ba}, c over {ca}, min and max, solver(s): {solver}")


def jobs(tier, seed):
    js = []
    for n, m in ((1, 1), (1, 2), (2, 1), (2, 2)):
        js.append(_job(f"simplex_{n}v{m}r_full", n, m, A4, B5, C4, "solve_lp"))
        ia = A4 if (tier == "thorough" or n * m < 4) else T3
        js.append(_job(f"interior_{n}v{m}r", n, m, ia, T3, T3, "solve_lp_interior"))
    js.append(_job("simplex_2v3r_ternary", 2, 3, T3, T3, T3, "solve_lp"))
    js.append(_job("simplex_3v2r_ternary", 3, 2, T3, T3, T3, "solve_lp"))
    js.append(_job("simplex_1v3r_full", 1, 3, A4, B5, C4, "solve_lp"))
    js.append(_job("simplex_3v1r_full", 3, 1, A4, B5, C4, "solve_lp"))
    js.append(Job("large_closed_form", len(large_lps()), _large_chunk, None, chunk=1, describe="box LPs with 12 variables, Klee-Minty cubes of dimension 4-6 (optimum 5^k), assignment polytopes 3x3 and 4x4 with equality rows (optimum by permutations); simplex and interior point"))
    # entries 3 and -3: pivoting on them produces thirds, i.e. the first tableaux with genuine rounding residue (every
    # other alphabet here is dyadic and therefore exact in binary floating point)
    js.append(_job("simplex_2v2r_thirds", 2, 2, (-3, -1, 0, 2, 3), (-2, 0, 1, 6), (-3, -1, 0, 2), "solve_lp"))
    js.append(_job("simplex_3v2r_thirds", 3, 2, (-3, 0, 2, 3), (-2, 0, 6), (-3, -1, 2), "solve_lp"))
    js.append(_job("interior_2v2r_thirds", 2, 2, (-3, -1, 0, 1, 3) if tier == "thorough" else (-3, -1, 1, 3), (-3, 0, 1), (-1, 0, 1), "solve_lp_interior", describe="2 variables, 2 rows with entries 3/-3 for the interior-point solver: parallel contradictory rows scaled by 3 (infeasible / unbounded inputs whose iterates diverge fastest)"))
    if tier == "thorough":
        js.append(_job("simplex_2v3r_thirds", 2, 3, (-3, 0, 2, 3), (-2, 0, 6), (-3, -1, 2), "solve_lp"))
    if tier == "thorough":
        js.append(_job("simplex_2v4r_ternary", 2, 4, T3, T3, T3, "solve_lp"))
    total33 = _size(3, 3, T3, T3, T3)
    if tier == "thorough":
        js.append(_job("simplex_3v3r_ternary", 3, 3, T3, T3, T3, "solve_lp"))
        js.append(_job("simplex_2v2r_dyadic", 2, 2, D4, D4, D4, "both"))
        js.append(_job("simplex_2v3r_full_b3", 2, 3, A4, T3, C4, "solve_lp"))
        js.append(_job("interior_2v3r_ternary", 2, 3, T3, T3, T3, "solve_lp_interior"))
        js.append(_job("interior_3v2r_ternary", 3, 2, T3, T3, T3, "solve_lp_interior"))
    else:
        for nm in ((2, 3), (3, 2)):
            tot = _size(nm[0], nm[1], T3, T3, T3)
            bi = seed % 64
            js.append(_job(f"interior_{nm[0]}v{nm[1]}r_ternary_block{bi}of64", nm[0], nm[1], T3, T3, T3, "solve_lp_interior", tot * bi // 64, tot * (bi + 1) // 64, describe=f"rotating 1/64 block (VERIF_SEED) of all {nm[0]}-variable {nm[1]}-row LPs over {{-1,0,1}} for the interior-point solver"))
        blocks = 64
        bq = seed % blocks
        lo, hi = total33 * bq // blocks, total33 * (bq + 1) // blocks
        js.append(_job(f"simplex_3v3r_ternary_block{bq}of{blocks}", 3, 3, T3, T3, T3, "solve_lp", lo, hi, describe="rotating 1/64 block (VERIF_SEED) of all 3x3 LPs over {-1,0,1}"))
    return js


def replay(v):
    w = v["witness"]
    if w.get("large"):
        names = [c[0] for c in large_lps()]
        i = names.index(w["large"])
        rr = _large_chunk(None, i, i + 1)
        for x in rr["violations"]:
            if x["function"] == v["function"]:
                return x
        return None
    A = [[Fraction(x) for x in row] for row in w["A"]]
    b = [Fraction(x) for x in w["b"]]
    c = [Fraction(x) for x in w["c"]]
    from solvor.interior_point import solve_lp_interior
    from solvor.simplex import solve_lp

    st, val = lpref.solve_exact(c, A, b, w["minimize"])
    fn, chk = (solve_lp, check_simplex) if v["function"] == "solve_lp" else (solve_lp_interior, check_interior)
    try:
        kw = {"max_iter": w["max_iter"]} if "max_iter" in w else {}
        res = fn([float(x) for x in c], [[float(x) for x in row] for row in A], [float(x) for x in b], minimize=w["minimize"], **kw)
    except Exception as ex:  # noqa: BLE001
        return {"function": v["function"], "kind": "raised", "detail": repr(ex)}
    errs = chk(res, A, b, c, w["minimize"], st, val)
    if errs:
        return {"function": v["function"], "kind": errs[0][0], "detail": errs[0][1]}
    return None
