"""Concrete snapshots of real objects (E3 canonical forms).

`freeze(obj)` returns a hashable value that keeps every field of the object (slots and
__dict__, recursively), so two objects with equal snapshots have equal futures as long as
the code under test is a deterministic function of its fields. No abstraction is applied.
"""

from __future__ import annotations

import copy
from enum import Enum


def freeze(x, _depth=0):
    if _depth > 12:
        raise ValueError("snapshot too deep")
    if x is None or isinstance(x, (bool, int, str, bytes)):
        return x
    if isinstance(x, float):
        return ("f", repr(x))
    if isinstance(x, Enum):
        return ("E", type(x).__name__, x.name)
    if isinstance(x, (list, tuple)):
        return (type(x).__name__[0], tuple(freeze(v, _depth + 1) for v in x))
    if isinstance(x, (set, frozenset)):
        return ("s", tuple(sorted((freeze(v, _depth + 1) for v in x), key=repr)))
    if isinstance(x, dict):
        return ("d", tuple(sorted(((freeze(k, _depth + 1), freeze(v, _depth + 1)) for k, v in x.items()), key=repr)))
    fields = []
    for klass in type(x).__mro__:
        for s in getattr(klass, "__slots__", ()):
            if isinstance(s, str) and hasattr(x, s):
                fields.append((s, freeze(getattr(x, s), _depth + 1)))
    if hasattr(x, "__dict__"):
        for k, v in sorted(vars(x).items()):
            if callable(v):
                fields.append((k, "<callable>"))
            else:
                fields.append((k, freeze(v, _depth + 1)))
    return ("o", type(x).__name__, tuple(fields))


def clone(x):
    return copy.deepcopy(x)
