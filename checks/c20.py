"""C20 - UnionFind and FenwickTree behave like their reference models (engine E3).

Explicit-state breadth-first search over operation histories of the *real* objects.
A state is the pair (concrete snapshot of the real object, reference model value); successors are
produced by cloning the real object and calling the real method. UnionFind is searched to closure
(every reachable concrete state for that n, hence histories of any length); FenwickTree, whose value
space is unbounded, to a depth bound.
"""

from __future__ import annotations

import itertools
from collections import deque

from vf.guard import call as gcall
from vf.core import Job, new_result
from vf.snap import clone, freeze

LEVEL = "model_checking"
RULE = (
    "E3: BFS over histories of real UnionFind / FenwickTree objects; state = (snapshot of every field of the "
    "real object, reference value); every operation of the alphabet is applied in every state and compared with "
    "the reference (a partition / a plain list). evaluations = operation applications; a state is non-trivial when "
    "it is not an initial state (>= 1 merge or update behind it); states are distinct by construction (hash set)."
)
ASSUMPTIONS = [
    "indices in range (the property's precondition)",
    "UnionFind n <= 6 quick / 7 thorough searched to closure; FenwickTree n <= 5, deltas {1,-1,3}, initial values "
    "{0,1,-2}^n or the size form, histories to depth 4 (quick) / 5 (thorough); n = 6..9 from 4+n structured initial vectors to depth 2-3",
    "objects are deterministic functions of their fields (snapshot keeps all slots / __dict__ entries)",
]


# ----------------------------------------------------------------------------------------- UnionFind


def _ref_merge(part, i, j):
    a = next(b for b in part if i in b)
    c = next(b for b in part if j in b)
    if a is c or a == c:
        return part, False
    return frozenset(b for b in part if b != a and b != c) | {a | c}, True


def _uf_observe(uf, n):
    """All query answers on a clone (so observing does not perturb)."""
    o = clone(uf)
    finds = tuple(o.find(i) for i in range(n))
    o = clone(uf)
    conn = tuple(o.connected(i, j) for i in range(n) for j in range(n))
    o = clone(uf)
    cnt = o.component_count
    sizes = tuple(sorted(clone(uf).component_sizes()))
    comps = frozenset(frozenset(c) for c in clone(uf).get_components())
    return finds, conn, cnt, sizes, comps, len(clone(uf))


def _uf_check_obs(obs, part, n):
    finds, conn, cnt, sizes, comps, ln = obs
    blk = {}
    for b in part:
        for i in b:
            blk[i] = b
    errs = []
    for i in range(n):
        if finds[i] not in blk[i]:
            errs.append(f"find({i})={finds[i]} is not a member of {sorted(blk[i])}")
        for j in range(n):
            same = blk[i] is blk[j]
            if (finds[i] == finds[j]) != same:
                errs.append(f"find({i})==find({j}) is {finds[i] == finds[j]}, reference {same}")
            if conn[i * n + j] != same:
                errs.append(f"connected({i},{j})={conn[i * n + j]}, reference {same}")
    if cnt != len(part):
        errs.append(f"component_count={cnt}, reference {len(part)}")
    if sizes != tuple(sorted(len(b) for b in part)):
        errs.append(f"component_sizes={sizes}, reference {tuple(sorted(len(b) for b in part))}")
    if comps != part:
        errs.append(f"get_components={sorted(map(sorted, comps))}, reference {sorted(map(sorted, part))}")
    if ln != n:
        errs.append(f"len={ln}, reference {n}")
    return errs


def _uf_ops(n):
    ops = [("union", i, j) for i in range(n) for j in range(n)]
    ops += [("find", i) for i in range(n)]
    ops += [("connected", i, j) for i in range(n) for j in range(n)]
    ops += [("component_count",), ("component_sizes",), ("get_components",), ("len",)]
    return ops


def _apply(obj, op):
    name = op[0]
    if name == "component_count":
        return obj.component_count
    if name == "len":
        return len(obj)
    return getattr(obj, name)(*op[1:])


DEEP8Q = [(0, 1), (2, 3), (4, 5), (6, 7), (1, 3), (5, 7), (3, 7), (7, 3), (0, 6)]
# the mirror image of DEEP8Q: the higher index is named first, so that parents get the larger index
DEEP8R = [(1, 0), (3, 2), (5, 4), (7, 6), (3, 1), (7, 5), (7, 3), (3, 7), (6, 0)]
DEEP8 = [(0, 1), (1, 0), (2, 3), (4, 5), (6, 7), (1, 3), (3, 1), (5, 7), (7, 5), (3, 7), (7, 3), (0, 7), (7, 0), (2, 6)]


def uf_search(n, max_states=None, unions=None):
    from solvor.utils.data_structures import UnionFind

    r = new_result()
    ops = _uf_ops(n)
    if unions is not None:
        # restricted union alphabet (a declared bound, not a symmetry claim); queries stay complete
        ops = [("union", i, j) for i, j in unions] + [o for o in ops if o[0] != "union"]
    try:
        init = UnionFind(n)
    except Exception as ex:  # noqa: BLE001
        r["n"] += 1
        r["outcomes"]["constructor:raised"] += 1
        r["violations"].append({"function": "UnionFind", "kind": "reference_mismatch", "witness": {"n": n, "history": [], "op": None}, "detail": f"UnionFind({n}) raised {type(ex).__name__}: {ex}; the reference model is the partition of {n} singletons"})
        return r
    part0 = frozenset(frozenset([i]) for i in range(n))
    s0 = (freeze(init), part0)
    seen = {s0: ()}
    objs = {s0: init}
    frontier = deque([s0])
    viol = []
    max_depth = 0
    compress = 0
    while frontier:
        s = frontier.popleft()
        hist = seen[s]
        obj = objs.pop(s)
        part = s[1]
        max_depth = max(max_depth, len(hist))
        try:
            obs = gcall(lambda: _uf_observe(obj, n), 5.0, 2_000_000)
        except Exception as ex:  # noqa: BLE001 - includes SolverHang: a read that does not return
            viol.append((hist, None, f"reading the state raised {type(ex).__name__}: {ex}"))
            break
        for e in _uf_check_obs(obs, part, n):
            viol.append((hist, None, "state answers differ from reference: " + e))
        for op in ops:
            if len(viol) > 20:
                break
            o = clone(obj)
            try:
                ans = gcall(lambda: _apply(o, op), 2.0, 1_000_000)
            except Exception as ex:  # noqa: BLE001
                viol.append((hist, op, f"raised {type(ex).__name__}: {ex}"))
                continue
            r["n"] += 1
            r["counters"]["transitions"] += 1
            if op[0] == "union":
                npart, merged = _ref_merge(part, op[1], op[2])
                if ans is not merged and ans != merged:
                    viol.append((hist, op, f"union returned {ans!r}, reference merged={merged}"))
                if merged:
                    r["outcomes"]["union:merged"] += 1
                else:
                    r["outcomes"]["union:noop"] += 1
            else:
                npart = part
                snap_after = freeze(o)
                if snap_after != s[0]:
                    compress += 1
                    r["outcomes"]["query:rewrote-fields"] += 1
                    try:
                        obs2 = gcall(lambda: _uf_observe(o, n), 5.0, 2_000_000)
                    except Exception as ex:  # noqa: BLE001
                        viol.append((hist, op, f"reading the state after the query raised {type(ex).__name__}: {ex}"))
                        continue
                    if obs2 != obs:
                        viol.append((hist, op, f"query changed later answers: before {obs} after {obs2}"))
                else:
                    r["outcomes"]["query:pure"] += 1
            ns = (freeze(o), npart)
            if ns not in seen:
                seen[ns] = hist + (op,)
                objs[ns] = o
                frontier.append(ns)
                if len(hist) + 1 > 0:
                    r["nontrivial"] += 1
        if max_states and len(seen) > max_states:
            r["capped"] = True
            break
        if len(viol) > 20:
            break
    r["counters"]["states"] += len(seen)
    r["counters"]["uf_states_n%d" % n] += len(seen)
    r["counters"]["uf_compressing_reads_n%d" % n] += compress
    r["counters"]["uf_max_depth_n%d" % n] = max_depth
    r["counters"]["traces"] += len(seen)
    closed = not frontier
    r["counters"]["uf_closed_n%d" % n] = int(closed)
    if not closed:
        r["capped"] = True
    for hist, op, msg in viol[:5]:
        r["violations"].append(
            {
                "function": "UnionFind",
                "kind": "reference_mismatch",
                "witness": {"n": n, "history": [list(h) for h in hist], "op": list(op) if op else None},
                "detail": f"n={n} after {list(hist)} then {op}: {msg}",
            }
        )
    some = list(seen.values())
    r["samples"].append({"structure": "UnionFind", "n": n, "history": [list(h) for h in some[len(some) // 2]]})
    return r


# --------------------------------------------------------------------------------------- FenwickTree


def _ft_observe(ft, n):
    pre = tuple(clone(ft).prefix(i) for i in range(n))
    rng = tuple(clone(ft).range_sum(l, h) for l in range(n) for h in range(l, n))
    return pre, rng, len(clone(ft))


def _ft_check(obs, ref, n):
    pre, rng, ln = obs
    errs = []
    for i in range(n):
        if pre[i] != sum(ref[: i + 1]):
            errs.append(f"prefix({i})={pre[i]}, reference {sum(ref[: i + 1])}")
    k = 0
    for l in range(n):
        for h in range(l, n):
            if rng[k] != sum(ref[l : h + 1]):
                errs.append(f"range_sum({l},{h})={rng[k]}, reference {sum(ref[l : h + 1])}")
            k += 1
    if ln != n:
        errs.append(f"len={ln}, reference {n}")
    return errs


def ft_search(n, init, depth, deltas=(1, -1, 3)):
    from solvor.utils.data_structures import FenwickTree

    r = new_result()
    try:
        if init is None:
            obj0 = FenwickTree(n)
            ref0 = (0,) * n
        else:
            obj0 = FenwickTree(list(init))
            ref0 = tuple(init)
    except Exception as ex:  # noqa: BLE001
        r["n"] += 1
        r["outcomes"]["constructor:raised"] += 1
        r["violations"].append({"function": "FenwickTree", "kind": "reference_mismatch", "witness": {"n": n, "init": list(init) if init is not None else None, "history": [], "op": None}, "detail": f"FenwickTree({n if init is None else list(init)}) raised {type(ex).__name__}: {ex}; the reference model is an array of {n} entries"})
        return r
    viol = []
    if init is not None:
        # environment events: the caller goes on using the list it passed in (changes an entry, builds a second tree from
        # it and updates that one); the first tree received its initial values at construction and no update since
        for ev in [("caller_sets_entry", i) for i in range(n)] + [("second_tree_from_same_list", i) for i in range(n)]:
            src = list(init)
            o = FenwickTree(src)
            if ev[0] == "caller_sets_entry":
                src[ev[1]] = src[ev[1]] + 7
            else:
                FenwickTree(src).update(ev[1], 7)
            r["n"] += 1
            r["counters"]["transitions"] += 1
            r["outcomes"]["environment:" + ev[0]] += 1
            for e in _ft_check(_ft_observe(o, n), ref0, n):
                viol.append(((), ev, e + " (the tree shares state with the list it was built from)"))
                break
    upd = [("update", i, d) for i in range(n) for d in deltas]
    qry = [("prefix", i) for i in range(n)] + [("range_sum", l, h) for l in range(n) for h in range(l, n)]
    s0 = (freeze(obj0), ref0)
    seen = {s0: ()}
    objs = {s0: obj0}
    frontier = deque([s0])
    while frontier:
        s = frontier.popleft()
        hist = seen[s]
        obj = objs.pop(s)
        ref = s[1]
        try:
            obs = gcall(lambda: _ft_observe(obj, n), 5.0, 2_000_000)
        except Exception as ex:  # noqa: BLE001
            viol.append((hist, None, f"reading the state raised {type(ex).__name__}: {ex}"))
            break
        for e in _ft_check(obs, ref, n):
            viol.append((hist, None, e))
        for op in qry:
            o = clone(obj)
            try:
                gcall(lambda: _apply(o, op), 2.0, 1_000_000)
            except Exception as ex:  # noqa: BLE001
                viol.append((hist, op, f"raised {type(ex).__name__}: {ex}"))
                continue
            r["n"] += 1
            r["counters"]["transitions"] += 1
            if freeze(o) != s[0]:
                r["outcomes"]["query:rewrote-fields"] += 1
                if _ft_observe(o, n) != obs:
                    viol.append((hist, op, "query changed later answers"))
                ns = (freeze(o), ref)
                if ns not in seen and len(hist) < depth:
                    seen[ns] = hist + (op,)
                    objs[ns] = o
                    frontier.append(ns)
            else:
                r["outcomes"]["query:pure"] += 1
        if len(hist) >= depth:
            continue
        for op in upd:
            if len(viol) > 20:
                break
            o = clone(obj)
            try:
                gcall(lambda: _apply(o, op), 2.0, 1_000_000)
            except Exception as ex:  # noqa: BLE001
                viol.append((hist, op, f"raised {type(ex).__name__}: {ex}"))
                continue
            r["n"] += 1
            r["counters"]["transitions"] += 1
            r["outcomes"]["update"] += 1
            nref = list(ref)
            nref[op[1]] += op[2]
            ns = (freeze(o), tuple(nref))
            if ns not in seen:
                seen[ns] = hist + (op,)
                objs[ns] = o
                frontier.append(ns)
                r["nontrivial"] += 1
        if len(viol) > 20:
            break
    r["counters"]["states"] += len(seen)
    r["counters"]["ft_states"] += len(seen)
    r["counters"]["traces"] += len(seen)
    for hist, op, msg in viol[:3]:
        r["violations"].append(
            {
                "function": "FenwickTree",
                "kind": "reference_mismatch",
                "witness": {
                    "n": n,
                    "init": list(init) if init is not None else None,
                    "history": [list(h) for h in hist],
                    "op": list(op) if op else None,
                },
                "detail": f"n={n} init={init} after {list(hist)} then {op}: {msg}",
            }
        )
    return r


# ---------------------------------------------------------------------- long scripted histories (large n)


def uf_scripts(n):
    """union scripts on n elements that build chains, stars and binomial trees (rank ~ log2 n), in both argument orders"""
    out = {}
    out["chain_ascending"] = [(i, i + 1) for i in range(n - 1)]
    out["chain_descending"] = [(i + 1, i) for i in range(n - 2, -1, -1)]
    out["chain_new_element_first"] = [(i, i - 1) for i in range(1, n)]  # the growing component is always the second argument
    out["chain_new_element_first_descending"] = [(i, i + 1) for i in range(n - 2, -1, -1)]
    out["star"] = [(0, i) for i in range(1, n)] + [(n - 1, 1)]
    bino, rev = [], []
    step = 1
    while step < n:
        for j in range(0, n - step, 2 * step):
            bino.append((j, j + step))
            rev.append((j + step + min(step - 1, n - 1 - j - step), j + step - 1))  # joins through the last members
        step *= 2
    out["binomial"] = bino
    out["binomial_last_members_first"] = rev
    return out


def _long_chunk(params, lo, hi):
    from solvor.utils.data_structures import FenwickTree, UnionFind

    cases = params
    r = new_result()
    for idx in range(lo, hi):
        kind, n, name = cases[idx]
        wit = {"structure": kind, "n": n, "script": name, "long": True}
        errs = []
        try:
            if kind == "UnionFind":
                script = uf_scripts(n)[name]
                o = UnionFind(n)
                label = list(range(n))
                checkpoints = {len(script) - 1} | ({k for k in (1, 2, 4, 8, 16, 32, 64, 128, 256) if k < len(script)} if n < 1000 else set())
                for k, (a, b) in enumerate(script):
                    merged = label[a] != label[b]
                    ans = gcall(lambda: o.union(a, b), 5.0, 5_000_000)
                    r["counters"]["transitions"] += 1
                    if bool(ans) != merged:
                        errs.append(f"step {k}: union({a},{b}) returned {ans!r}, reference merged={merged}")
                        break
                    if merged:
                        old, new_ = label[b], label[a]
                        label = [new_ if x == old else x for x in label]
                    if k in checkpoints:
                        blocks = {}
                        for i, x in enumerate(label):
                            blocks.setdefault(x, set()).add(i)
                        part = frozenset(frozenset(bk) for bk in blocks.values())
                        e = _uf_check_obs(gcall(lambda: _uf_observe(o, n), 30.0, 200_000_000), part, n)
                        if e:
                            errs.append(f"after step {k} ({script[: k + 1][-3:]} last): {e[0]}")
                            break
                        # reads compress paths: observe again on the object itself, then continue the script on it
                        gcall(lambda: [o.find(i) for i in range(0, n, 7)], 5.0, 5_000_000)
            else:
                init = [((i * 7) % 5) - 2 for i in range(n)]
                ref = list(init)
                o = FenwickTree(list(init)) if name == "from_list" else FenwickTree(n)
                if name != "from_list":
                    ref = [0] * n
                    for i, x in enumerate(init):
                        o.update(i, x)
                        ref[i] += x
                for i in sorted({0, 1, n - 1, n // 2, 62, 63, 64, 65, 127, 128, 255, 256} & set(range(n))):
                    gcall(lambda: o.update(i, 3 + i % 4), 5.0, 5_000_000)
                    ref[i] += 3 + i % 4
                    r["counters"]["transitions"] += 1
                errs += _ft_check(gcall(lambda: _ft_observe(o, n), 60.0, 500_000_000), ref, n)[:1]
        except Exception as ex:  # noqa: BLE001
            errs.append(f"raised {type(ex).__name__}: {ex}")
        r["n"] += 1
        r["nontrivial"] += 1
        r["counters"]["traces"] += 1
        r["counters"]["states"] += 1
        r["outcomes"][f"long:{kind}:{'ok' if not errs else 'mismatch'}"] += 1
        for e in errs[:1]:
            r["violations"].append({"function": kind, "kind": "reference_mismatch", "witness": wit, "detail": f"{kind} n={n} script {name}: {e}"})
        if not r["samples"]:
            r["samples"].append(wit)
    return r


def long_cases():
    out = []
    for n in (70, 300):
        for name in uf_scripts(n):
            out.append(("UnionFind", n, name))
    for name in ("chain_ascending", "chain_descending", "chain_new_element_first", "chain_new_element_first_descending"):  # 1499 unions with no read in between: depth beyond the interpreter's recursion limit if ranks fail
        out.append(("UnionFind", 1500, name))
    for n in (64, 65, 130, 257):
        out.append(("FenwickTree", n, "from_list"))
        out.append(("FenwickTree", n, "from_size"))
    return out


# ------------------------------------------------------------------------------------------- jobs


def _uf_chunk(params, lo, hi):
    out = new_result()
    for k in range(lo, hi):
        if params[k] in ("deep8", "deep8q", "deep8r"):
            r = uf_search(8, unions={"deep8": DEEP8, "deep8q": DEEP8Q, "deep8r": DEEP8R}[params[k]])
            r["counters"]["uf_states_" + params[k]] = r["counters"].pop("uf_states_n8", 0)
            _merge(out, r)
        else:
            _merge(out, uf_search(params[k]))
    return out


TINY = 2.0**-40


def _ft_cases(nmax, depth):
    cases = [(0, None, depth), (0, (), depth)] + [(n, None, depth) for n in range(1, nmax + 1)]  # size 0: the empty array, both constructors
    for n in range(1, nmax + 1):
        for init in itertools.product((0, 1, -2), repeat=n):
            cases.append((n, init, depth))
    # larger trees (three index levels: n up to 9) from a structured set of initial vectors, shallower histories
    for n in (6, 7, 8, 9):
        inits = [None, (1,) * n, tuple(i % 2 for i in range(n)), tuple(range(1, n + 1))] + [tuple(3 if i == k else 0 for i in range(n)) for k in range(n)]
        for init in inits:
            cases.append((n, init, min(depth, 3) - (1 if n >= 8 else 0)))
    # values of very different magnitude (all dyadic, every sum below 16 with 2^-40 as the finest unit: exact in a double):
    # entries and differences far below any absolute tolerance a numeric routine might apply
    T = TINY
    for n in (1, 2, 3):
        for init in [None] + list(itertools.product((0.0, T, 1.0), repeat=n)):
            cases.append((n, init, min(depth, 3), (T, -T, 1.0)))
    return cases


def _ft_chunk(params, lo, hi):
    out = new_result()
    for k in range(lo, hi):
        n, init, depth = params[k][:3]
        r = ft_search(n, init, depth, *params[k][3:])
        if not out["samples"]:
            r["samples"].append({"structure": "FenwickTree", "n": n, "init": init, "depth": depth})
        _merge(out, r)
    return out


def _merge(out, r):
    out["n"] += r["n"]
    out["nontrivial"] += r["nontrivial"]
    out["outcomes"].update(r["outcomes"])
    for k, v in r["counters"].items():
        out["counters"][k] += v
    out["violations"].extend(r["violations"])
    if len(out["samples"]) < 2:
        out["samples"].extend(r["samples"][:1])
    out["capped"] = out["capped"] or r["capped"]


def jobs(tier, seed):
    uf_ns = [7, 6, 5, 4, 3, 2, 1, 0] if tier == "thorough" else [6, 5, 4, 3, 2, 1, 0]
    uf_ns = (["deep8", "deep8r"] if tier == "thorough" else ["deep8q", "deep8r"]) + uf_ns  # n = 8 with 14 declared union pairs: trees of depth 3 (rank 3), every query in every state
    depth = 5 if tier == "thorough" else 4
    ft = _ft_cases(5, depth)
    if tier == "quick":
        # n=5 with all 243 initial vectors at depth 4 is the expensive part; quick keeps every n<=4 initial
        # vector, and for n=5 the size form plus the initial vectors selected by the rotating block VERIF_SEED%3
        ft = [c for c in ft if c[0] != 5 or c[1] is None or (sum(1 for v in c[1] if v) % 3 == seed % 3)]
    ft.sort(key=lambda c: -c[0])
    return [
        Job("long_scripted_histories", len(long_cases()), _long_chunk, long_cases(), chunk=1, describe="UnionFind with 70 and 300 elements under chain / star / binomial union scripts (both argument orders, reads in between), FenwickTree with 64..257 entries: sizes beyond one machine word of indices, trees of rank 6-8"),
        Job("unionfind_closure", len(uf_ns), _uf_chunk, uf_ns, chunk=1, describe=f"BFS to closure for n in {uf_ns[2:]}; plus n=8 to closure over the declared union alphabets {DEEP8 if tier == 'thorough' else DEEP8Q} and {DEEP8R}"),
        Job("fenwick_depth%d" % depth, len(ft), _ft_chunk, ft, chunk=max(1, len(ft) // 128), describe="(n, initial vector) x all histories to the depth bound"),
    ]


def _replay_inner(v):
    w = v["witness"]
    if w.get("long"):
        cases = long_cases()
        for i, cse in enumerate(cases):
            if cse == (w["structure"], w["n"], w["script"]):
                rr = _long_chunk(cases, i, i + 1)
                return rr["violations"][0] if rr["violations"] else None
        return None
    if v["function"] == "UnionFind":
        from solvor.utils.data_structures import UnionFind

        try:
            o = UnionFind(w["n"])
        except Exception as ex:  # noqa: BLE001
            return {"function": "UnionFind", "kind": "reference_mismatch", "detail": f"UnionFind({w['n']}) raised {ex!r}"}
        part = frozenset(frozenset([i]) for i in range(w["n"]))
        for op in w["history"]:
            op = tuple(op)
            _apply(o, op)
            if op[0] == "union":
                part, _ = _ref_merge(part, op[1], op[2])
        if w.get("op"):
            op = tuple(w["op"])
            before = _uf_observe(o, w["n"])
            ans = _apply(o, op)
            if op[0] == "union":
                part, merged = _ref_merge(part, op[1], op[2])
                if ans != merged:
                    return {"function": "UnionFind", "kind": "reference_mismatch", "detail": f"union returned {ans}, reference {merged}"}
            elif _uf_observe(o, w["n"]) != before:
                return {"function": "UnionFind", "kind": "reference_mismatch", "detail": "query changed later answers"}
        errs = _uf_check_obs(_uf_observe(o, w["n"]), part, w["n"])
        if errs:
            return {"function": "UnionFind", "kind": "reference_mismatch", "detail": errs[0]}
        return None
    from solvor.utils.data_structures import FenwickTree

    n = w["n"]
    src = None if w["init"] is None else list(w["init"])
    try:
        o = FenwickTree(n) if src is None else FenwickTree(src)
    except Exception as ex:  # noqa: BLE001
        return {"function": "FenwickTree", "kind": "reference_mismatch", "detail": f"the constructor raised {ex!r}"}
    ref = [0] * n if w["init"] is None else list(w["init"])
    for op in w["history"] + ([w["op"]] if w.get("op") else []):
        op = tuple(op)
        if op[0] == "caller_sets_entry":
            src[op[1]] = src[op[1]] + 7
            continue
        if op[0] == "second_tree_from_same_list":
            FenwickTree(src).update(op[1], 7)
            continue
        try:
            _apply(o, op)
        except Exception as ex:  # noqa: BLE001
            return {"function": "FenwickTree", "kind": "reference_mismatch", "detail": f"raised {ex!r}"}
        if op[0] == "update":
            ref[op[1]] += op[2]
    errs = _ft_check(_ft_observe(o, n), ref, n)
    if errs:
        return {"function": "FenwickTree", "kind": "reference_mismatch", "detail": errs[0]}
    return None


def replay(v):
    from vf.guard import SolverHang

    try:
        return gcall(lambda: _replay_inner(v), 10.0, 5_000_000)
    except SolverHang as ex:
        return {"function": v["function"], "kind": "reference_mismatch", "detail": f"the recorded history does not terminate: {ex}"}
