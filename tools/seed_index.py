#!/venv/bin/python
"""Regenerates seeded/INDEX.md from seeded/*/meta.json."""
import glob, json, os
V = os.path.dirname(os.path.dirname(os.path.abspath(__file__)))
rows = []
for f in sorted(glob.glob(os.path.join(V, "seeded", "*", "meta.json"))):
    m = json.load(open(f))
    caught = [f"{c['check']}({c['tier']}): {'CAUGHT' if c['exit'] == 1 else 'missed' if c['exit'] == 0 else 'error'}" for c in m.get("checks", [])]
    rows.append((m["id"], m["breaks_property"], "yes" if m.get("confirmed") else "NO", "; ".join(caught), m["needs_to_manifest"]))
with open(os.path.join(V, "seeded", "INDEX.md"), "w") as out:
    out.write("# Seeded changes (each breaks one property; the repository's suite still passes)\n\n")
    out.write("| id | property | independently confirmed | checks | needs to manifest |\n|---|---|---|---|---|\n")
    for r in rows:
        out.write("| " + " | ".join(x.replace("|", "/") for x in r) + " |\n")
print(len(rows), "seeds")
