#!/bin/bash
# tools/try_mutant.sh <patch.diff> <PID> [<PID>...]   (env TIER=quick|thorough)
# Applies the patch to a scratch worktree of /repo's HEAD (never to /repo), runs the named checks against it
# through SOLVOR_REPO, prints one line per check, removes the worktree.
set -u
patch=$(readlink -f "$1"); shift
name=$(basename "$(dirname "$patch")")_$(basename "$patch" .diff)
wt=/tmp/wtm/$name.$$
mkdir -p /tmp/wtm
git -C /repo worktree add -q --detach "$wt" HEAD || exit 2
if ! git -C "$wt" apply "$patch"; then echo "PATCH-DOES-NOT-APPLY $patch"; git -C /repo worktree remove --force "$wt"; exit 2; fi
cd /verif
for pid in "$@"; do
  t0=$(date +%s)
  out=$(SOLVOR_REPO=$wt VERIF_SCRATCH_EVIDENCE=/var/tmp/solvor-verif/mut-evidence/$name ./check $pid --tier ${TIER:-quick} 2>&1)
  rc=$?
  t1=$(date +%s)
  first=$(echo "$out" | grep -m1 -B1 '^VIOLATION' | head -1 | cut -c1-260)
  echo "MUTANT $name check=$pid rc=$rc secs=$((t1-t0)) :: $first"
done
git -C /repo worktree remove --force "$wt"
