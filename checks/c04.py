"""C04 - MILP answers are integer-feasible and OPTIMAL means proven optimal (engine E1)."""

from __future__ import annotations

import itertools
from fractions import Fraction

from vf import lpref
from vf.combi import digits
from vf.guard import call as gcall, too_many_hangs
from vf.core import Job, new_result, viol

LEVEL = "exploration"
RULE = (
    "E1: every MILP  min/max c.x, Ax<=b, x>=0, x_I integer  with n<=2 variables, m<=2 rows over A in {-1,0,1,2}, b in "
    "{-1..3}, c in {-1,0,1,2} x every subset I of integer variables x {heuristics on, off}; every 16th instance additionally "
    "crossed with the configuration menu (warm starts: every integer point of [0,3]^n feasible or not, a fractional point, a "
    "wrong-length vector; solution_limit 1/2/5; lns_iterations 0/2 with seeds 0..3); a 3-variable family with explicit "
    "x_j<=1 rows (binary detection, rounding heuristic, LNS). Instances whose relaxation is bounded in the integer "
    "coordinates are judged against an exact optimum (lattice enumeration inside the exact bounding box x exact LP over "
    "the continuous coordinates); relaxation-unbounded instances must answer UNBOUNDED or return only feasible points. "
    "Non-trivial = the MILP optimum differs from the relaxation optimum, or the MILP is infeasible although the "
    "relaxation is feasible, or a warm start / limit configuration is active."
)
ASSUMPTIONS = [
    "n <= 3, m <= 4 (incl. bound rows), integer data in {-1..3}",
    "instances with an integer variable unbounded in the relaxation but a bounded objective are filtered out ('small bounded MILPs')",
    "tolerances: feasibility/integrality 1e-6, objective 1e-6*(1+|v*|)",
]

A4 = (-1, 0, 1, 2)
B5 = (-1, 0, 1, 2, 3)
C4 = (-1, 0, 1, 2)
F = Fraction


# ----------------------------------------------------------------------------------------- oracle


class Geometry:
    """Exact description of {Ax<=b, x>=0} shared by every objective / integer subset of one (A,b)."""

    def __init__(self, A, b, n):
        self.A, self.b, self.n = A, b, n
        self.verts = lpref.vertices(A, b, n)
        self.rec = lpref.recession_vertices(A, n)
        self.ub = []
        for j in range(n):
            if any(d[j] > 0 for d in self.rec):
                self.ub.append(None)
            else:
                self.ub.append(max((v[j] for v in self.verts), default=F(0)))
        self.parts = {}

    def lp(self, c, minimize):
        return lpref.classify(c, self.verts, self.rec, minimize)

    def pieces(self, ints):
        """[(integer assignment, vertices of the continuous part)] for every integer assignment inside the box that
        leaves a non-empty continuous polyhedron; None if some integer variable is unbounded."""
        key = tuple(ints)
        if key in self.parts:
            return self.parts[key]
        if not self.verts:
            self.parts[key] = []
            return []
        if any(self.ub[j] is None for j in ints):
            self.parts[key] = None
            return None
        cont = [j for j in range(self.n) if j not in ints]
        out = []
        ranges = [range(0, int(self.ub[j]) + 1) for j in ints]
        for vals in itertools.product(*ranges):
            rhs = [F(self.b[i]) - sum(F(self.A[i][j]) * v for j, v in zip(ints, vals)) for i in range(len(self.A))]
            if cont:
                Ar = [[self.A[i][j] for j in cont] for i in range(len(self.A))]
                vs = lpref.vertices(Ar, rhs, len(cont))
                if vs:
                    out.append((vals, vs))
            else:
                if all(r >= 0 for r in rhs):
                    out.append((vals, [[]]))
        self.parts[key] = out
        return out

    def milp(self, c, ints, minimize):
        """('INFEASIBLE'|'UNBOUNDED'|'OPTIMAL'|'SKIP', value)"""
        st, val = self.lp(c, minimize)
        if st == "INFEASIBLE":
            return "INFEASIBLE", None, None
        if st == "UNBOUNDED":
            return "UNBOUNDED", None, None
        pcs = self.pieces(ints)
        if pcs is None:
            return "SKIP", None, val
        cont = [j for j in range(self.n) if j not in ints]
        best = None
        for vals, vs in pcs:
            base = sum(F(c[j]) * v for j, v in zip(ints, vals))
            cv = [sum(F(c[j]) * x[k] for k, j in enumerate(cont)) for x in vs]
            t = base + (min(cv) if minimize else max(cv))
            if best is None or (t < best if minimize else t > best):
                best = t
        if best is None:
            return "INFEASIBLE", None, val
        return "OPTIMAL", best, val


def point_errors(x, A, b, c, ints, name):
    n = len(c)
    if x is None or len(x) != n:
        return [("shape", f"{name} = {x!r}")]
    for j in range(n):
        if not (x[j] >= -1e-6):
            return [("negative_variable", f"{name} = {x}")]
    for j in ints:
        if abs(x[j] - round(x[j])) > 1e-6:
            return [("not_integral", f"{name} = {x}: x[{j}] is not an integer")]
    for i in range(len(A)):
        lhs = sum(A[i][j] * x[j] for j in range(n))
        if not (lhs <= b[i] + 1e-6):
            return [("constraint_violated", f"{name} = {x}: row {i} gives {lhs} > {b[i]}")]
    return []


def judge(geo, c, ints, minimize, kw):
    from solvor.milp import solve_milp
    from solvor.types import Status

    A, b = geo.A, geo.b
    st, val, relax = geo.milp(c, list(ints), minimize)
    try:
        res = gcall(lambda: solve_milp([float(v) for v in c], [[float(v) for v in r] for r in A], [float(v) for v in b], list(ints), minimize=minimize, **kw), 5.0, 50_000_000)
    except Exception as ex:  # noqa: BLE001
        return [("raised", f"{type(ex).__name__}: {ex}")], "raised", False
    errs = []
    label = f"{res.status.name}/exact:{st}"
    nontrivial = (st == "OPTIMAL" and relax is not None and val != relax) or (st == "INFEASIBLE" and relax is not None) or bool(kw.get("warm_start")) or kw.get("solution_limit", 1) > 1
    usable = res.status in (Status.OPTIMAL, Status.FEASIBLE)
    if usable:
        errs += point_errors(res.solution, A, b, c, ints, "solution")
        if not errs:
            cx = sum(c[j] * res.solution[j] for j in range(len(c)))
            if abs(cx - res.objective) > 1e-6 * (1 + abs(cx)):
                errs.append(("objective_not_cx", f"objective {res.objective}, c.x = {cx} at {res.solution}"))
    if res.solutions is not None:
        for k, s in enumerate(res.solutions):
            errs += point_errors(s, A, b, c, ints, f"solutions[{k}]")
    if st == "SKIP":
        return errs, label, False
    if res.status == Status.OPTIMAL:
        if st != "OPTIMAL":
            errs.append(("optimal_without_optimum", f"status OPTIMAL, exact verdict {st}"))
        elif abs(res.objective - float(val)) > 1e-6 * (1 + abs(float(val))):
            errs.append(("not_optimal", f"status OPTIMAL with objective {res.objective}, exact optimum {val}"))
    elif res.status == Status.FEASIBLE:
        if st != "OPTIMAL":
            errs.append(("feasible_without_solution", f"status FEASIBLE, exact verdict {st}"))
        elif (res.objective < float(val) - 1e-6) if minimize else (res.objective > float(val) + 1e-6):
            errs.append(("better_than_optimum", f"objective {res.objective} beats the exact optimum {val}"))
    elif res.status == Status.INFEASIBLE:
        if st == "OPTIMAL":
            errs.append(("wrong_infeasible", f"INFEASIBLE but an integer-feasible point with objective {val} exists"))
        elif st == "UNBOUNDED":
            pass  # cannot be decided by a bounded enumeration; not judged
    elif res.status == Status.UNBOUNDED:
        if st != "UNBOUNDED":
            errs.append(("wrong_unbounded", f"UNBOUNDED but the relaxation is {('bounded with optimum ' + str(relax)) if relax is not None else st}"))
    elif res.status == Status.MAX_ITER and ("max_iter" in kw or "max_nodes" in kw):
        pass  # a declared limit was hit and the solver claims nothing
    else:
        errs.append(("status", f"status {res.status.name}"))
    return errs, label, nontrivial


FULL_MENU = [False]


def config_menu(n, ints):
    full = FULL_MENU[0]
    cfgs = []
    warm = [None]
    for pt in itertools.product((-1, 0, 1, 2, 3) if full else (-1, 0, 1, 2), repeat=n):
        warm.append([float(v) for v in pt])  # feasible, infeasible by a row, infeasible by sign
    warm.append([0.5] * n)
    warm.append([1.0] * (n + 1))
    for w in warm:
        for h in (True, False) if (full or w is None or -1.0 in w) else (True,):
            cfgs.append(dict(warm_start=w, heuristics=h))
    for lim in (2, 5):
        for h in (True, False):
            cfgs.append(dict(solution_limit=lim, heuristics=h))
        cfgs.append(dict(solution_limit=lim, warm_start=[1.0] * n))
    for sd in (0, 1, 2, 3) if full else (0, 1):
        cfgs.append(dict(lns_iterations=2, seed=sd))
        cfgs.append(dict(lns_iterations=2, seed=sd, solution_limit=5))
    # iteration / node limits: whatever is returned under a tiny budget must still be feasible and honestly labelled
    for lim in (dict(max_iter=1), dict(max_iter=2), dict(max_iter=3), dict(max_nodes=1), dict(max_nodes=2), dict(max_iter=2, max_nodes=2)):
        cfgs.append(lim)
        if full or len(lim) == 1 and list(lim.values())[0] == 1:
            cfgs.append(dict(lim, heuristics=False))
    return cfgs


def _decode(idx, n, m):
    minimize = idx % 2 == 0
    k = idx // 2
    isub = k % (1 << n)
    k //= 1 << n
    cc = k % 4**n
    k //= 4**n
    bc = k % 5**m
    ac = k // 5**m
    A = [[A4[d] for d in digits(ac, 4, n * m)[i * n : (i + 1) * n]] for i in range(m)]
    b = [B5[d] for d in digits(bc, 5, m)]
    c = [C4[d] for d in digits(cc, 4, n)]
    ints = tuple(j for j in range(n) if isub >> j & 1)
    return A, b, c, ints, minimize, (ac, bc)


def _rec(r, errs, label, nt, wit, call):
    r["n"] += 1
    r["outcomes"][label] += 1
    if nt:
        r["nontrivial"] += 1
    if not r["samples"]:
        r["samples"].append(wit)
    for kind, detail in errs:
        r["violations"].append(viol("solve_milp", kind, wit, f"{call}: {detail}"))


def _chunk(params, lo, hi):
    n, m, cross_mod = params
    r = new_result()
    geo = None
    gkey = None
    for idx in range(lo, hi):
        A, b, c, ints, minimize, key = _decode(idx, n, m)
        if key != gkey:
            geo = Geometry(A, b, n)
            gkey = key
        cfgs = [dict(), dict(heuristics=False)]
        # the configuration menu matters once the root relaxation is fractional (otherwise solve_milp returns at the
        # root): cross it on every instance whose exact MILP verdict differs from the relaxation's, and on a
        # 1/cross_mod slice of the others
        st0, val0, relax0 = geo.milp(c, list(ints), minimize)
        gap = ints and ((st0 == "OPTIMAL" and val0 != relax0) or (st0 == "INFEASIBLE" and relax0 is not None) or st0 == "SKIP")
        if gap and not FULL_MENU[0] and n * m >= 4 and (key[0] + key[1]) % 2:
            gap = False  # quick tier: every second (A,b) of the largest space
        if gap or (cross_mod and (key[0] * 7 + key[1] * 3 + idx // 2) % cross_mod == 0):
            cfgs += config_menu(n, ints)
            r["counters"]["instances_with_full_config_cross"] += 1
        for kw in cfgs:
            errs, label, nt = judge(geo, c, ints, minimize, kw)
            wit = {"c": c, "A": A, "b": b, "integers": list(ints), "minimize": minimize, "config": kw}
            _rec(r, errs, label, nt, wit, f"solve_milp(c={c}, A={A}, b={b}, integers={list(ints)}, minimize={minimize}, {kw})")
        if len(r["violations"]) >= 40 or too_many_hangs():
            r["capped"] = True
            break
    return r


def _alpha_chunk(params, lo, hi):
    """2 variables, 2 rows over explicit alphabets (aa, ba, ca): index = (((ac*|ba|^2 + bc)*|ca|^2 + cc)*4 + isub)*2 + min.
    Used with 3 / -3 among the entries: pivoting on them gives thirds, the first node LPs with rounding residue."""
    aa, ba, ca = params
    r = new_result()
    geo = None
    gkey = None
    for idx in range(lo, hi):
        minimize = idx % 2 == 0
        k = idx // 2
        isub = k % 4
        k //= 4
        cc = k % len(ca) ** 2
        k //= len(ca) ** 2
        bc = k % len(ba) ** 2
        ac = k // len(ba) ** 2
        ad = digits(ac, len(aa), 4)
        A = [[aa[ad[0]], aa[ad[1]]], [aa[ad[2]], aa[ad[3]]]]
        b = [ba[d] for d in digits(bc, len(ba), 2)]
        c = [ca[d] for d in digits(cc, len(ca), 2)]
        ints = tuple(j for j in range(2) if isub >> j & 1)
        if (ac, bc) != gkey:
            geo = Geometry(A, b, 2)
            gkey = (ac, bc)
        for kw in (dict(), dict(heuristics=False)):
            errs, label, nt = judge(geo, c, ints, minimize, kw)
            wit = {"c": c, "A": A, "b": b, "integers": list(ints), "minimize": minimize, "config": kw}
            _rec(r, errs, label, nt, wit, f"solve_milp(c={c}, A={A}, b={b}, integers={list(ints)}, minimize={minimize}, {kw})")
        if len(r["violations"]) >= 40 or too_many_hangs():
            r["capped"] = True
            break
    return r


def _cover5_chunk(params, lo, hi):
    """five binaries (rows x_j <= 1) and one covering row w.x >= K with weights over {1,2,5}, costs over {1,2,3},
    K in {4,6,8}, all integer, minimise: node LPs whose bound is an integer reached through fifths (rounding residue on an
    integral bound). params = (first cost code, number of cost codes): index = ((w_code*3 + k)*ncost + c)*2 + heuristics"""
    c0, ncost = params
    r = new_result()
    geo = None
    gkey = None
    for idx in range(lo, hi):
        heur = idx % 2 == 0
        k = idx // 2
        c = [(1, 2, 3)[d] for d in digits(c0 + k % ncost, 3, 5)]
        k //= ncost
        K = (4, 6, 8)[k % 3]
        w = [(1, 2, 5)[d] for d in digits(k // 3, 3, 5)]
        A = [[1 if a == j else 0 for a in range(5)] for j in range(5)] + [[-x for x in w]]
        b = [1] * 5 + [-K]
        if (tuple(w), K) != gkey:
            geo = Geometry(A, b, 5)
            gkey = (tuple(w), K)
        kw = {} if heur else {"heuristics": False}
        errs, label, nt = judge(geo, c, (0, 1, 2, 3, 4), True, kw)
        wit = {"c": c, "A": A, "b": b, "integers": [0, 1, 2, 3, 4], "minimize": True, "config": kw}
        _rec(r, errs, label, nt, wit, f"solve_milp(c={c}, A={A}, b={b}, integers=[0, 1, 2, 3, 4], minimize=True, {kw})")
        if len(r["violations"]) >= 40 or too_many_hangs():
            r["capped"] = True
            break
    return r


def _int4_chunk(params, lo, hi):
    """four integer variables with explicit rows x_j <= 2 and one general row: a covering row w.x >= K (minimise) or a
    knapsack row w.x <= K (maximise); all integer. Trees of about ten LP nodes with an incumbent found while several open
    nodes (some dominated, some not) wait in the queue. params = (kind, weight alphabet, Ks, cost alphabet);
    index = ((w_code*len(Ks) + k)*ncost + c_code)*2 + heuristics"""
    kind, wa, Ks, ca = params
    r = new_result()
    geo = None
    gkey = None
    ncost = len(ca) ** 4
    for idx in range(lo, hi):
        heur = idx % 2 == 0
        k = idx // 2
        c = [ca[d] for d in digits(k % ncost, len(ca), 4)]
        k //= ncost
        K = Ks[k % len(Ks)]
        w = [wa[d] for d in digits(k // len(Ks), len(wa), 4)]
        A = [[1 if a == j else 0 for a in range(4)] for j in range(4)] + [[-x for x in w] if kind == "cover" else list(w)]
        b = [2] * 4 + [-K if kind == "cover" else K]
        if (tuple(w), K) != gkey:
            geo = Geometry(A, b, 4)
            gkey = (tuple(w), K)
        kw = {} if heur else {"heuristics": False}
        minimize = kind == "cover"
        errs, label, nt = judge(geo, c, (0, 1, 2, 3), minimize, kw)
        wit = {"c": c, "A": A, "b": b, "integers": [0, 1, 2, 3], "minimize": minimize, "config": kw}
        _rec(r, errs, label, nt, wit, f"solve_milp(c={c}, A={A}, b={b}, integers=[0, 1, 2, 3], minimize={minimize}, {kw})")
        if len(r["violations"]) >= 40 or too_many_hangs():
            r["capped"] = True
            break
    return r


def _lbrow_chunk(params, lo, hi):
    """two integer variables, each with one single-variable row that is either x_j <= 1 or -x_j <= -1 (x_j >= 1), both with
    x_j <= 3, and one general row +-(a.x) <= +-b0: rows that only look like binary bounds when their sign is dropped.
    index = ((((kinds*9 + a_code)*7 + b0)*2 + sense)*16 + c_code)*2 + minimize"""
    r = new_result()
    geo = None
    gkey = None
    for idx in range(lo, hi):
        minimize = idx % 2 == 0
        k = idx // 2
        c = [(1, 2, 3, 4)[d] for d in digits(k % 16, 4, 2)]
        k //= 16
        sense = k % 2
        k //= 2
        b0 = k % 7
        k //= 7
        a = [(1, 2, 3)[d] for d in digits(k % 9, 3, 2)]
        kinds = digits(k // 9, 2, 2)
        A = [([1, 0] if j == 0 else [0, 1]) if kinds[j] == 0 else ([-1, 0] if j == 0 else [0, -1]) for j in range(2)]
        b = [1 if kinds[j] == 0 else -1 for j in range(2)]
        A += [[1, 0], [0, 1], [x if sense == 0 else -x for x in a]]
        b += [3, 3, b0 if sense == 0 else -b0]
        if (tuple(map(tuple, A)), tuple(b)) != gkey:
            geo = Geometry(A, b, 2)
            gkey = (tuple(map(tuple, A)), tuple(b))
        for ints in ((0, 1), (0,), (1,)):
            for kw in ({}, {"heuristics": False}):
                errs, label, nt = judge(geo, c, ints, minimize, kw)
                wit = {"c": c, "A": A, "b": b, "integers": list(ints), "minimize": minimize, "config": kw}
                _rec(r, errs, label, nt, wit, f"solve_milp(c={c}, A={A}, b={b}, integers={list(ints)}, minimize={minimize}, {kw})")
        if len(r["violations"]) >= 40 or too_many_hangs():
            r["capped"] = True
            break
    return r


BOX3_A = (-4, -2, -1, 1, 2, 4)
BOX3_C = (-2, 1, 4)


def _box3_warm_chunk(params, lo, hi):
    """two integer variables in the box 0..3 (rows x_j <= 3), two general rows with coefficients over {-4,-2,-1,1,2,4} and
    right-hand sides over {-2, 2}, costs over {-2,1,4}, minimise; every integer point of the box as warm start (feasible or
    not), heuristics on: warm starts with entries 2 and 3 meeting the rounding / swap local search.
    index = ((a_code*4 + b_code)*9 + c_code)"""
    r = new_result()
    for idx in range(lo, hi):
        c = [BOX3_C[d] for d in digits(idx % 9, 3, 2)]
        k = idx // 9
        bb = [(-2, 2)[d] for d in digits(k % 4, 2, 2)]
        a = [BOX3_A[d] for d in digits(k // 4, 6, 4)]
        A = [[1, 0], [0, 1], a[:2], a[2:]]
        b = [3, 3] + bb
        geo = Geometry(A, b, 2)
        if not geo.verts:
            continue
        for ws in [None] + [[float(x), float(y)] for x in range(4) for y in range(4)]:
            kw = {} if ws is None else {"warm_start": ws}
            errs, label, nt = judge(geo, c, (0, 1), True, kw)
            wit = {"c": c, "A": A, "b": b, "integers": [0, 1], "minimize": True, "config": kw}
            _rec(r, errs, label, nt, wit, f"solve_milp(c={c}, A={A}, b={b}, integers=[0, 1], minimize=True, {kw})")
        if len(r["violations"]) >= 40 or too_many_hangs():
            r["capped"] = True
            break
    return r


def medium_knapsacks():
    """(name, values, weights, capacity, maximise): 0/1 knapsacks (maximise value under a weight limit) and covering
    problems (minimise cost over a demand) with 10-24 binaries, data from fixed formulas; optimum by plain integer DP"""
    out = []
    for n, a, b, m in ((10, 3, 7, 11), (12, 5, 3, 13), (16, 7, 5, 17), (20, 3, 11, 19), (24, 5, 7, 23)):
        vals = [2 + (a * i * i + b * i) % m for i in range(n)]
        wts = [1 + (b * i * i + a * i + 1) % (m - 2) for i in range(n)]
        for frac in (3, 2):
            out.append((f"knapsack{n}_cap_third" if frac == 3 else f"knapsack{n}_cap_half", vals, wts, sum(wts) // frac, True))
            out.append((f"cover{n}_third" if frac == 3 else f"cover{n}_half", vals, wts, sum(wts) // frac, False))
    return out


def _dp_knapsack(vals, wts, cap, maximise):
    if maximise:  # max value, weight <= cap
        best = [0] * (cap + 1)
        for v, w in zip(vals, wts):
            for c in range(cap, w - 1, -1):
                best[c] = max(best[c], best[c - w] + v)
        return best[cap]
    big = 10**9  # min cost, weight >= cap
    best = [0] + [big] * cap
    for v, w in zip(vals, wts):
        for c in range(cap, 0, -1):
            best[c] = min(best[c], best[max(0, c - w)] + v)
    return best[cap]


MEDIUM_CFGS = [{}, {"heuristics": False}, {"negated": True, "heuristics": False}, {"negated": True}, {"lns_iterations": 10, "seed": 0}, {"lns_iterations": 10, "seed": 1, "negated": True}]


def _medium_chunk(params, lo, hi):
    from solvor.milp import solve_milp
    from solvor.types import Status

    cases = medium_knapsacks()
    r = new_result()
    for idx in range(lo, hi):
        name, vals, wts, cap, maximise = cases[idx // len(MEDIUM_CFGS)]
        cfg = idx % len(MEDIUM_CFGS)
        n = len(vals)
        A = [[1.0 if a == j else 0.0 for a in range(n)] for j in range(n)] + [[float(w) if maximise else -float(w) for w in wts]]
        b = [1.0] * n + [float(cap) if maximise else -float(cap)]
        want = _dp_knapsack(vals, wts, cap, maximise)
        kw = dict(MEDIUM_CFGS[cfg])
        negated = kw.pop("negated", False)  # the same problem written with the objective negated and the sense flipped
        wit = {"medium": name, "config": MEDIUM_CFGS[cfg]}
        how = f"solve_milp({name}: {n} binaries, {'max value, weight <= ' if maximise else 'min cost, weight >= '}{cap}, {MEDIUM_CFGS[cfg]})"
        r["n"] += 1
        r["nontrivial"] += 1
        try:
            if negated:
                res0 = gcall(lambda: solve_milp([-float(v) for v in vals], A, b, list(range(n)), minimize=maximise, **kw), 120.0, 1_500_000_000)
                res = res0 if res0.solution is None else type("R", (), {"status": res0.status, "solution": res0.solution, "objective": -res0.objective})()
            else:
                res = gcall(lambda: solve_milp([float(v) for v in vals], A, b, list(range(n)), minimize=not maximise, **kw), 120.0, 1_500_000_000)
        except Exception as ex:  # noqa: BLE001
            r["outcomes"]["medium:raised"] += 1
            r["violations"].append(viol("solve_milp", "raised", wit, f"{how}: {type(ex).__name__}: {str(ex)[:120]}"))
            continue
        r["outcomes"][f"medium:{res.status.name}"] += 1
        errs = []
        if res.status in (Status.OPTIMAL, Status.FEASIBLE):
            x = res.solution
            if any(abs(v - round(v)) > 1e-6 or v < -1e-6 or v > 1 + 1e-6 for v in x):
                errs.append(("not_integral", f"solution {x} is not a 0/1 point"))
            else:
                wsum = sum(w * round(v) for w, v in zip(wts, x))
                vsum = sum(v_ * round(v) for v_, v in zip(vals, x))
                if (wsum > cap) if maximise else (wsum < cap):
                    errs.append(("constraint_violated", f"total weight {wsum} against the limit {cap}"))
                if abs(vsum - res.objective) > 1e-6:
                    errs.append(("objective_not_cx", f"objective {res.objective}, c.x = {vsum}"))
                if res.status == Status.OPTIMAL and abs(res.objective - want) > 1e-6:
                    errs.append(("not_optimal", f"status OPTIMAL with objective {res.objective}, the optimum by integer DP is {want}"))
                if (res.objective > want + 1e-6) if maximise else (res.objective < want - 1e-6):
                    errs.append(("better_than_optimum", f"objective {res.objective} beats the optimum {want}"))
        elif res.status in (Status.INFEASIBLE, Status.UNBOUNDED):
            errs.append(("wrong_infeasible" if res.status == Status.INFEASIBLE else "wrong_unbounded", f"status {res.status.name} for a feasible bounded problem with optimum {want}"))
        for kind, detail in errs:
            r["violations"].append(viol("solve_milp", kind, wit, f"{how}: {detail}"))
        if not r["samples"]:
            r["samples"].append(wit)
    return r


def _binary_chunk(params, lo, hi):
    """3 variables, rows x_j<=1 (j=0..2) + one general row a.x<=b0 (+ optionally a second); all integer.
    index = ((a_code*4 + b0)*64 + c_code)*2 + minimize ; second row from params"""
    second = params
    r = new_result()
    geo = None
    gkey = None
    for idx in range(lo, hi):
        minimize = idx % 2 == 0
        k = idx // 2
        cc = k % 64
        k //= 64
        b0 = (0, 1, 2, 3)[k % 4]
        ac = k // 4
        a = [A4[d] for d in digits(ac, 4, 3)]
        c = [C4[d] for d in digits(cc, 4, 3)]
        A = [[1, 0, 0], [0, 1, 0], [0, 0, 1], a]
        b = [1, 1, 1, b0]
        if second is not None:
            A.append(list(second[0]))
            b.append(second[1])
        key = (ac, b0)
        if key != gkey:
            geo = Geometry(A, b, 3)
            gkey = key
        for ints in ((0, 1, 2), (0, 2)):
            cfgs = [dict(), dict(heuristics=False), dict(lns_iterations=2, seed=0), dict(lns_iterations=2, seed=1), dict(lns_iterations=3, seed=2, lns_destroy_frac=0.7), dict(solution_limit=5), dict(warm_start=[1.0, 0.0, 1.0]), dict(warm_start=[0.0, 0.0, 0.0], lns_iterations=2, seed=3)]
            for kw in cfgs:
                errs, label, nt = judge(geo, c, ints, minimize, kw)
                wit = {"c": c, "A": A, "b": b, "integers": list(ints), "minimize": minimize, "config": kw}
                _rec(r, errs, label, nt, wit, f"solve_milp(c={c}, A={A}, b={b}, integers={list(ints)}, minimize={minimize}, {kw})")
        if len(r["violations"]) >= 40 or too_many_hangs():
            r["capped"] = True
            break
    return r


PAIR_B = ((3, 1), (3, 0), (1, 3))
PAIR_CFGS = (dict(lns_iterations=5, seed=0, warm_start=[0.0, 0.0, 0.0]), dict(lns_iterations=2, seed=1), dict(warm_start=[1.0, 0.0, 1.0], lns_iterations=3, seed=0))


def _pair_chunk(params, lo, hi):
    """ordered call pairs in one process: the 3-variable binary model with right-hand side b0 is solved, then the same
    model with another right-hand side b0' under the same configuration (same seed, same warm start); the second answer
    is judged on its own - it may not depend on what the first call computed.
    index = (((a_code*64 + c_code)*|PAIR_B| + pair)*|PAIR_CFGS| + cfg)*2 + minimize"""
    from solvor.milp import solve_milp

    r = new_result()
    for idx in range(lo, hi):
        minimize = idx % 2 == 0
        k = idx // 2
        kw = PAIR_CFGS[k % len(PAIR_CFGS)]
        k //= len(PAIR_CFGS)
        b_first, b_second = PAIR_B[k % len(PAIR_B)]
        k //= len(PAIR_B)
        c = [C4[d] for d in digits(k % 64, 4, 3)]
        a = [A4[d] for d in digits(k // 64, 4, 3)]
        A = [[1, 0, 0], [0, 1, 0], [0, 0, 1], a]
        ints = (0, 1, 2)
        try:
            gcall(lambda: solve_milp([float(v) for v in c], [[float(v) for v in row] for row in A], [1.0, 1.0, 1.0, float(b_first)], list(ints), minimize=minimize, **kw), 5.0, 50_000_000)
        except Exception:  # noqa: BLE001 - the first call is judged where it is enumerated on its own
            pass
        b = [1, 1, 1, b_second]
        errs, label, nt = judge(Geometry(A, b, 3), c, ints, minimize, kw)
        wit = {"c": c, "A": A, "b": b, "integers": list(ints), "minimize": minimize, "config": kw, "first_call_b": [1, 1, 1, b_first]}
        _rec(r, errs, "after-first:" + label, nt, wit, f"after solve_milp(.., b={[1, 1, 1, b_first]}, ..): solve_milp(c={c}, A={A}, b={b}, integers={list(ints)}, minimize={minimize}, {kw})")
        if len(r["violations"]) >= 40 or too_many_hangs():
            r["capped"] = True
            break
    return r


def _pseudo_chunk(params, lo, hi):
    """x integer, y continuous; row 0 is [1, a1] <= 1 with a1 != 0 (looks like the bound x <= 1 if y is ignored);
    rows 1,2 general. index = ((((a1*16 + r1)*5 + b1)*16 + r2)*5 + b2)*16 + c)*2 + minimize"""
    r = new_result()
    geo = None
    gkey = None
    for idx in range(lo, hi):
        minimize = idx % 2 == 0
        k = idx // 2
        cc = k % 16
        k //= 16
        b2 = B5[k % 5]
        k //= 5
        r2 = [A4[d] for d in digits(k % 16, 4, 2)]
        k //= 16
        b1 = B5[k % 5]
        k //= 5
        r1 = [A4[d] for d in digits(k % 16, 4, 2)]
        a1 = (-1, 1, 2)[k // 16 + params]
        A = [[1, a1], r1, r2]
        b = [1, b1, b2]
        c = [C4[d] for d in digits(cc, 4, 2)]
        key = idx // 32
        if key != gkey:
            geo = Geometry(A, b, 2)
            gkey = key
        for kw in (dict(), dict(heuristics=False)):
            errs, label, nt = judge(geo, c, (0,), minimize, kw)
            wit = {"c": c, "A": A, "b": b, "integers": [0], "minimize": minimize, "config": kw}
            _rec(r, errs, label, nt, wit, f"solve_milp(c={c}, A={A}, b={b}, integers=[0], minimize={minimize}, {kw})")
        if len(r["violations"]) >= 40 or too_many_hangs():
            r["capped"] = True
            break
    return r


def _pseudo3_chunk(params, lo, hi):
    """x0,x1 integer, y continuous; rows x0+a0*y<=1, x1+a1*y<=1 (a in {-1,1}), y<=u, one general row.
    index = (((((a0*2+a1)*2 + ui)*64 + g)*5 + bg)*64 + c)*2 + minimize"""
    P = (-1, 1)
    r = new_result()
    geo = None
    gkey = None
    for idx in range(lo, hi):
        minimize = idx % 2 == 0
        k = idx // 2
        c = [C4[d] for d in digits(k % 64, 4, 3)]
        k //= 64
        bg = B5[k % 5]
        k //= 5
        g = [A4[d] for d in digits(k % 64, 4, 3)]
        k //= 64
        u = (1, 2)[k % 2]
        k //= 2
        a0, a1 = P[k // 2], P[k % 2]
        A = [[1, 0, a0], [0, 1, a1], [0, 0, 1], g]
        b = [1, 1, u, bg]
        key = idx // 128
        if key != gkey:
            geo = Geometry(A, b, 3)
            gkey = key
        for kw in (dict(), dict(heuristics=False)):
            errs, label, nt = judge(geo, c, (0, 1), minimize, kw)
            wit = {"c": c, "A": A, "b": b, "integers": [0, 1], "minimize": minimize, "config": kw}
            _rec(r, errs, label, nt, wit, f"solve_milp(c={c}, A={A}, b={b}, integers=[0, 1], minimize={minimize}, {kw})")
        if len(r["violations"]) >= 40 or too_many_hangs():
            r["capped"] = True
            break
    return r


def _size(n, m):
    return 4 ** (n * m) * 5**m * 4**n * (1 << n) * 2


def jobs(tier, seed):
    js = []
    FULL_MENU[0] = tier == "thorough"
    for n, m in ((1, 1), (1, 2), (2, 1), (2, 2)):
        js.append(Job(f"milp_{n}v{m}r", _size(n, m), _chunk, (n, m, 64 if tier == "quick" else 4), describe="all instances x integer subsets x min/max, heuristics on/off; every 16th (4th in thorough) instance x full configuration menu"))
    th = ((-3, 0, 2, 3), (-2, 1, 6, 7), (-3, -1, 2)) if tier == "quick" else ((-3, -1, 0, 2, 3), (-2, 0, 1, 6, 7), (-3, -1, 0, 2))
    js.append(Job("milp_2v2r_thirds", len(th[0]) ** 4 * len(th[1]) ** 2 * len(th[2]) ** 2 * 8, _alpha_chunk, th, describe=f"2 variables, 2 rows, A over {th[0]}, b over {th[1]}, c over {th[2]}, integer subsets, min/max, heuristics on/off: entries 3/-3 give node LPs with thirds (rounding residue)"))
    js.append(Job("call_history_pairs", 64 * 64 * len(PAIR_B) * len(PAIR_CFGS) * 2, _pair_chunk, None, describe="the binary 3-variable model solved with one right-hand side, then with another under the same LNS seed / warm start; the second answer is judged on its own"))
    if tier == "thorough":
        js.append(Job("binary5_covering_row", 243 * 3 * 243 * 2, _cover5_chunk, (0, 243), describe="5 binaries, one covering row with weights over {1,2,5}, costs over {1,2,3}, K in {4,6,8}, heuristics on/off"))
    else:
        bb = seed % 9
        js.append(Job(f"binary5_covering_row_costblock{bb}of9", 243 * 3 * 27 * 2, _cover5_chunk, (bb * 27, 27), describe="5 binaries, one covering row with every weight vector over {1,2,5} and K in {4,6,8}; costs over {1,2,3}: rotating 1/9 block of the cost vectors (VERIF_SEED); heuristics on/off"))
    cov = ("cover", (1, 2, 3), (3, 5, 7, 9, 11), (1, 2, 3))
    js.append(Job("int4_covering_row", 81 * 5 * 81 * 2, _int4_chunk, cov, describe="4 integers in 0..2, one covering row with weights over {1,2,3}, K in {3,5,7,9,11}, costs over {1,2,3}, minimise, heuristics on/off (integral LP bounds carrying float residue; trees of about ten nodes)"))
    if tier == "thorough":
        kn = ("knap", (2, 3, 4, 5), (7, 9, 11), (1, 2, 3, 4))
        js.append(Job("int4_knapsack_row", 256 * 3 * 256 * 2, _int4_chunk, kn, describe="4 integers in 0..2, one knapsack row with weights over {2..5}, K in {7,9,11}, values over {1..4}, maximise, heuristics on/off"))
    else:
        kn = ("knap", (2, 3, 4), (7, 9, 11), (2, 3, 4))
        js.append(Job("int4_knapsack_row_234", 81 * 3 * 81 * 2, _int4_chunk, kn, describe="4 integers in 0..2, one knapsack row with weights over {2,3,4}, K in {7,9,11}, values over {2,3,4}, maximise, heuristics on/off (incumbents found while dominated and non-dominated nodes wait in the queue)"))
    js.append(Job("medium_knapsacks_by_dp", len(medium_knapsacks()) * len(MEDIUM_CFGS), _medium_chunk, None, chunk=1, describe="0/1 knapsacks and covering problems with 10-24 binaries (data from fixed formulas, capacity a third / half of the total weight); heuristics on/off, the objective negated with the sense flipped (negative incumbents under maximise), LNS passes; optimum by plain integer DP"))
    js.append(Job("int2_box3_warm_starts", 6**4 * 4 * 9, _box3_warm_chunk, None, describe="2 integer variables in 0..3, two general rows over {-4,-2,-1,1,2,4} with right-hand sides {-2,2}, costs over {-2,1,4}, minimise; no warm start and every integer point of the box as warm start"))
    js.append(Job("int2_lower_bound_rows", 4 * 9 * 7 * 2 * 16 * 2, _lbrow_chunk, None, describe="2 variables, each with a single-variable row x_j <= 1 or -x_j <= -1 plus x_j <= 3, one general row a.x <= b0 or a.x >= b0 with a over {1,2,3}, b0 in 0..6, costs over {1..4}; every integer subset, min/max, heuristics on/off"))
    js.append(Job("binary3_one_row", 64 * 4 * 64 * 2, _binary_chunk, None, describe="3 variables with explicit x_j<=1 rows + one general row; all-integer and mixed; rounding heuristic, LNS seeds, limits, warm starts"))
    js.append(Job("binary3_two_rows", 64 * 4 * 64 * 2, _binary_chunk, ((1, 1, 1), 2), describe="same with an extra cardinality row x0+x1+x2<=2"))
    na = 3 if tier == "thorough" else 1
    js.append(Job("mixed_pseudo_bound_2v3r", na * 16 * 5 * 16 * 5 * 16 * 2, _pseudo_chunk, 0, describe="integer x, continuous y, row [1,a1]<=1 that only looks like a bound on x, two general rows"))
    js.append(Job("mixed_pseudo_bound_3v4r", 4 * 2 * 64 * 5 * 64 * 2, _pseudo3_chunk, None, describe="integers x0,x1, continuous y; rows x_j + a_j*y <= 1 that only look like binary bounds, y<=u, one general row"))
    if tier == "thorough":
        js.append(Job("binary3_neg_row", 64 * 4 * 64 * 2, _binary_chunk, ((-1, -1, 1), 0), describe="extra row -x0-x1+x2<=0"))
        js.append(Job("milp_3v1r", _size(3, 1), _chunk, (3, 1, 16), describe="3 variables, 1 row"))
        js.append(Job("milp_1v3r", _size(1, 3), _chunk, (1, 3, 4), describe="1 variable, 3 rows"))
    return js


def replay(v):
    w = v["witness"]
    if w.get("medium"):
        names = [c[0] for c in medium_knapsacks()]
        i = names.index(w["medium"]) * len(MEDIUM_CFGS) + MEDIUM_CFGS.index(w.get("config") or {})
        r = _medium_chunk(None, i, i + 1)
        return r["violations"][0] if r["violations"] else None
    geo = Geometry(w["A"], w["b"], len(w["c"]))
    kw = dict(w["config"])
    if w.get("first_call_b"):
        from solvor.milp import solve_milp

        try:
            solve_milp([float(x) for x in w["c"]], [[float(x) for x in row] for row in w["A"]], [float(x) for x in w["first_call_b"]], list(w["integers"]), minimize=w["minimize"], **kw)
        except Exception:  # noqa: BLE001
            pass
    errs, _, _ = judge(geo, w["c"], tuple(w["integers"]), w["minimize"], kw)
    for kind, detail in errs:
        if kind == v["kind"]:
            return {"function": "solve_milp", "kind": kind, "detail": detail}
    if errs:
        return {"function": "solve_milp", "kind": errs[0][0], "detail": errs[0][1]}
    return None
