#!/bin/bash
# Offline setup: the framework is pure Python run by /venv/bin/python; nothing to build except the
# Rust extension overlay used by C12 (built lazily by that check; pre-warmed here when cargo is present).
cd "$(dirname "$0")"
mkdir -p evidence replays
/venv/bin/python -B -c "import sys; sys.path.insert(0,'/repo'); import solvor; print('solvor', solvor.__version__)"
if [ -x tools/build_rust.sh ]; then tools/build_rust.sh || echo "rust pre-warm failed (C12 will retry)"; fi
exit 0
