"""Shared harness of C01 / C02: enumerated CNF spaces, configurations, oracles and the analyze() tap."""

from __future__ import annotations

import functools
import itertools
import sys

from vf import satref
from vf.core import Job, new_result
from vf.guard import guarded

# ------------------------------------------------------------------------------------------- tap

_TAP = {"attached": None, "learned": [], "calls": 0}
_TAP_TOOL = 4


def attach_tap():
    """PY_RETURN events of the nested function `analyze` of solve_sat deliver every learned clause."""
    if _TAP["attached"] is not None:
        return _TAP["attached"]
    import importlib

    mod = importlib.import_module("solvor.sat")
    code = None
    for c in mod.solve_sat.__code__.co_consts:
        if hasattr(c, "co_name") and c.co_name == "analyze":
            code = c
    if code is None:
        _TAP["attached"] = False
        return False
    mon = sys.monitoring
    try:
        mon.use_tool_id(_TAP_TOOL, "solvor-verif-sat-tap")
    except ValueError:
        pass

    def on_return(co, off, retval):
        _TAP["calls"] += 1
        try:
            if isinstance(retval, tuple) and retval and retval[0] is not None:
                _TAP["learned"].append(list(retval[0]))
        except Exception:  # noqa: BLE001
            pass

    mon.register_callback(_TAP_TOOL, mon.events.PY_RETURN, on_return)
    mon.set_local_events(_TAP_TOOL, code, mon.events.PY_RETURN)
    # second tap: entries of reduce_db() that find >= 2000 learned clauses (the reduction actually runs)
    rcode = None
    for c in mod.solve_sat.__code__.co_consts:
        if hasattr(c, "co_name") and c.co_name == "reduce_db":
            rcode = c
    if rcode is not None:

        def on_start(co, off):
            try:
                fl = sys._getframe(1).f_locals
                if len(fl.get("learned", ())) >= 2000:
                    _TAP["reductions"] = _TAP.get("reductions", 0) + 1
            except Exception:  # noqa: BLE001
                pass

        mon.register_callback(_TAP_TOOL, mon.events.PY_START, on_start)
        mon.set_local_events(_TAP_TOOL, rcode, mon.events.PY_START)
    _TAP["attached"] = True
    return True


# ------------------------------------------------------------------------------------- clause spaces


@functools.lru_cache(None)
def clause_universe(nvars: int, maxlen: int):
    """All non-tautological, duplicate-free clauses of length 1..maxlen over variables 1..nvars (literals ascending by
    variable)."""
    out = []
    for k in range(1, maxlen + 1):
        for vs in itertools.combinations(range(1, nvars + 1), k):
            for signs in itertools.product((1, -1), repeat=k):
                out.append(tuple(v * s for v, s in zip(vs, signs)))
    return tuple(out)


@functools.lru_cache(None)
def formula_list(nvars: int, maxlen: int, minsize: int, maxsize: int, minlen: int = 1):
    u = tuple(c for c in clause_universe(nvars, maxlen) if len(c) >= minlen)
    out = []
    for k in range(minsize, maxsize + 1):
        out.extend(itertools.combinations(u, k))
    return out


@functools.lru_cache(None)
def loose_formulas():
    """Clauses as *ordered literal sequences* over two variables, duplicates and tautologies included (84 clauses);
    every formula of 1 or 2 such clauses (ordered)."""
    lits = (1, -1, 2, -2)
    cl = []
    for k in (1, 2, 3):
        cl.extend(itertools.product(lits, repeat=k))
    out = [(c,) for c in cl]
    out.extend(itertools.product(cl, repeat=2))
    return out


def lucky(i, k):
    return i % k


# ------------------------------------------------------------------------------------------ configs

DEFAULTS = dict(assumptions=None, solution_limit=1, luby_factor=100, max_restarts=10_000, max_conflicts=100_000)


def assumption_menu(nvars: int, outside: bool = True):
    lits = [s * v for v in range(1, nvars + 1) for s in (1, -1)]
    menu = [None] + [[l] for l in lits]
    for a, b in itertools.combinations(lits, 2):
        if abs(a) != abs(b):
            menu.append([a, b])
    menu.append([1, -1])
    if outside:
        menu.append([nvars + 1])
        menu.append([-(nvars + 1), 1])
    return menu


@functools.lru_cache(None)
def config_menu(kind: str, nvars: int):
    cfgs = []
    if kind == "core":
        for a in assumption_menu(nvars):
            for lim in (1, 2, 3, 2**nvars + 1):
                for lf in (1, 100):
                    cfgs.append(dict(assumptions=a, solution_limit=lim, luby_factor=lf))
        for a in (None, [-1]):
            for lim in (1, 2**nvars + 1):
                for lf in (1, 2):
                    for mr in (0, 1):
                        for mc in (1, 3, 100_000):
                            cfgs.append(dict(assumptions=a, solution_limit=lim, luby_factor=lf, max_restarts=mr, max_conflicts=mc))
    elif kind == "light":
        for a in (None, [1], [-2], [-1, 2], [nvars + 1]):
            for lim in (1, 2**nvars + 1):
                for lf in (1, 100):
                    cfgs.append(dict(assumptions=a, solution_limit=lim, luby_factor=lf))
        for lf, mr, mc in ((1, 0, 100_000), (1, 1, 100_000), (2, 1, 3), (100, 10_000, 1), (1, 10_000, 3)):
            cfgs.append(dict(assumptions=None, solution_limit=2**nvars + 1, luby_factor=lf, max_restarts=mr, max_conflicts=mc))
    elif kind == "enum":
        for lim in (1, 4, 10**6):
            for lf in (1, 2, 100):
                cfgs.append(dict(assumptions=None, solution_limit=lim, luby_factor=lf))
        cfgs.append(dict(assumptions=[1], solution_limit=10**6, luby_factor=1))
        cfgs.append(dict(assumptions=[-2, 3], solution_limit=10**6, luby_factor=1))
    return tuple(cfgs)


def luby_ref(i: int) -> int:
    k = 1
    while (1 << k) - 1 < i:
        k += 1
    if i == (1 << k) - 1:
        return 1 << (k - 1)
    return luby_ref(i - (1 << (k - 1)) + 1)


def restart_budget_conflicts(cfg) -> int:
    """Conflicts needed before MAX_ITER can be caused by max_restarts."""
    lf = cfg.get("luby_factor", 100)
    mr = cfg.get("max_restarts", 10_000)
    if mr > 64:
        return 10**9
    return lf * sum(luby_ref(i) for i in range(1, mr + 2))


# -------------------------------------------------------------------------------------------- oracle


def judge(clauses, cfg, res, verdict, learned, analyze_calls, tap_on, models=None):
    """Returns list of (property, kind, detail). `models` = all models of clauses ∧ assumptions over the
    variables that occur (brute force), computed here when not supplied."""
    out = []
    assumptions = cfg.get("assumptions") or []
    if models is None:
        vs = satref.variables(clauses, assumptions)
        cl2 = [list(c) for c in clauses] + [[l] for l in assumptions]
        models = satref.model_dicts(cl2, vs) if not any(len(c) == 0 for c in clauses) else []
    if verdict == "nontermination":
        out.append(("C02", "nontermination", "solve_sat did not return within the fuel budget"))
        return out
    if isinstance(verdict, str) and verdict.startswith("raised"):
        out.append(("C02", "raised", verdict))
        return out
    from solvor.types import Status

    st = res.status
    limit = cfg.get("solution_limit", 1)
    returned = []
    if res.solution is not None:
        returned.append(("solution", res.solution))
    if res.solutions is not None:
        for i, s in enumerate(res.solutions):
            returned.append((f"solutions[{i}]", s))
    # ---- C01: returned assignments are models
    for name, s in returned:
        if not isinstance(s, dict):
            out.append(("C01", "not_a_model", f"{name} is not an assignment: {s!r}"))
            continue
        bad = satref.satisfies(s, clauses)
        if bad >= 0:
            out.append(("C01", "not_a_model", f"{name}={s} falsifies clause {list(clauses[bad])}"))
        for l in assumptions:
            if s.get(abs(l)) is not (l > 0):
                out.append(("C01", "assumption_ignored", f"{name}={s} disagrees with assumption {l}"))
                break
    if res.solutions is not None:
        keys = [tuple(sorted(s.items())) for s in res.solutions if isinstance(s, dict)]
        if len(set(keys)) != len(keys):
            out.append(("C01", "duplicate_models", f"solutions contains the same assignment twice: {res.solutions}"))
        if len(res.solutions) > limit:
            out.append(("C01", "too_many_models", f"{len(res.solutions)} solutions for solution_limit={limit}"))
    # ---- C02: verdicts
    if st not in (Status.OPTIMAL, Status.INFEASIBLE, Status.MAX_ITER):
        out.append(("C02", "bad_status", f"status {st.name}"))
    if st == Status.INFEASIBLE and models:
        out.append(("C02", "wrong_infeasible", f"INFEASIBLE but {models[0]} is a model (of {len(models)})"))
    if not models and res.solution is not None:
        out.append(("C02", "model_for_unsat", f"status {st.name} with solution {res.solution} for an unsatisfiable input"))
    if not models and st == Status.OPTIMAL:
        out.append(("C02", "optimal_for_unsat", "status OPTIMAL for an unsatisfiable input"))
    if models and st != Status.MAX_ITER and res.solution is None and st != Status.INFEASIBLE:
        out.append(("C02", "no_model_returned", f"status {st.name}, no model returned although {models[0]} is a model"))
    if st == Status.MAX_ITER and tap_on:
        need = min(cfg.get("max_conflicts", 100_000) - 1, restart_budget_conflicts(cfg))
        if analyze_calls < need:
            out.append(
                ("C02", "max_iter_without_budget", f"MAX_ITER after {analyze_calls} analysed conflicts; budgets need >= {need}")
            )
    # ---- C02 mechanism: learned clauses are entailed by the formula (blocked models excepted)
    if learned and not any(len(c) == 0 for c in clauses):
        vs = satref.variables(clauses)
        ms, pos = satref.all_models([list(c) for c in clauses], vs)
        mset = set(ms)
        blocked = set()
        for _, s in returned:
            if isinstance(s, dict):
                a = 0
                for v, b in s.items():
                    if b and v in pos:
                        a |= 1 << pos[v]
                blocked.add(a)
        n = len(vs)
        for lc in learned:
            if any(abs(l) not in pos for l in lc):
                continue  # mentions an assumption-only variable: not judged
            must0 = must1 = 0  # assignments falsifying lc: positive literals 0, negative literals 1
            taut = False
            for l in lc:
                b = 1 << pos[abs(l)]
                if l > 0:
                    must0 |= b
                else:
                    must1 |= b
            if must0 & must1:
                taut = True
            if taut:
                continue
            free = [i for i in range(n) if not (must0 | must1) >> i & 1]
            bad = None
            if (1 << len(free)) <= len(ms):
                for k in range(1 << len(free)):
                    a = must1
                    for j, i in enumerate(free):
                        if k >> j & 1:
                            a |= 1 << i
                    if a in mset and a not in blocked:
                        bad = a
                        break
            else:
                for a in ms:
                    if a & must0 == 0 and a & must1 == must1 and a not in blocked:
                        bad = a
                        break
            if bad is not None:
                m = {v: bool(bad >> pos[v] & 1) for v in vs}
                out.append(("C02", "unimplied_learned_clause", f"learned clause {lc} excludes model {m}, which was not returned"))
                break
    return out


def call(clauses, cfg):
    """Run the real solver once. Returns (result, verdict, learned, analyze_calls, tap_on)."""
    from solvor.sat import solve_sat

    tap_on = attach_tap()
    _TAP["learned"] = []
    _TAP["calls"] = 0
    kw = {k: v for k, v in cfg.items() if v is not None and not k.startswith("_")}
    form = kw.pop("input_form", "lists")
    alarm_s, fuel = cfg.get("_guard", (2.0, 20_000_000))

    def argument():
        # how the caller hands the clauses over: fresh lists, tuples, or lists in which equal clauses are one shared
        # object (what `[c] * 2` or appending the same list twice produces)
        if form == "tuples":
            return tuple(tuple(c) for c in clauses)
        if form == "shared":
            pool = {}
            return [pool.setdefault(tuple(c), list(c)) for c in clauses]
        return [list(c) for c in clauses]

    def run():
        _TAP["learned"] = []
        _TAP["calls"] = 0
        _TAP["reductions"] = 0
        try:
            return solve_sat(argument(), **kw), None
        except Exception as ex:  # noqa: BLE001
            return None, f"raised {type(ex).__name__}: {ex}"

    v, verdict = guarded(run, alarm_s, fuel)
    if verdict == "nontermination":
        return None, verdict, [], 0, tap_on
    res, err = v
    return res, err, _TAP["learned"], _TAP["calls"], tap_on


def classify(res, verdict, learned, analyze_calls):
    if verdict:
        return verdict.split(":")[0]
    tag = res.status.name
    if res.solutions is not None:
        tag += "+multi"
    return tag


def run_case(pid, clauses, cfg, r, models_cache=None):
    res, verdict, learned, ncalls, tap_on = call(clauses, cfg)
    key = None
    models = None
    if models_cache is not None:
        key = tuple(cfg.get("assumptions") or ())
        models = models_cache.get(key)
        if models is None:
            assumptions = list(key)
            vs = satref.variables(clauses, assumptions)
            cl2 = [list(c) for c in clauses] + [[l] for l in assumptions]
            models = satref.model_dicts(cl2, vs) if not any(len(c) == 0 for c in clauses) else []
            models_cache[key] = models
    vs_ = judge(clauses, cfg, res, verdict, learned, ncalls, tap_on, models)
    r["n"] += 1
    r["outcomes"][classify(res, verdict, learned, ncalls)] += 1
    if verdict == "nontermination":
        r["counters"]["hangs"] += 1
    if ncalls:
        r["counters"]["cases_with_conflict_analysis"] += 1
    if learned:
        r["counters"]["cases_with_learned_clause"] += 1
        r["counters"]["learned_clauses_checked"] += len(learned)
    nontrivial = bool(learned) or (verdict is None and res.status.name != "OPTIMAL") or (verdict is None and res.solutions is not None and len(res.solutions) > 1)
    if nontrivial:
        r["nontrivial"] += 1
    if not tap_on:
        r["counters"]["tap_not_attached"] += 1
    if _TAP.get("reductions"):
        r["counters"]["cases_with_effective_reduce_db"] += 1
        r["counters"]["effective_reduce_db_calls"] += _TAP["reductions"]
    preds = []
    if clauses and all(len(c) == 0 for c in clauses) and not cfg.get("assumptions"):
        preds.append("only_empty_clauses_no_assumptions")
    for p, kind, detail in vs_:
        if p != pid:
            continue
        r["violations"].append(
            {
                "function": "solve_sat",
                "predicates": preds,
                "kind": kind,
                "witness": {"clauses": [list(c) for c in clauses], "config": {k: v for k, v in cfg.items() if v is not None and not k.startswith("_")}},
                "detail": f"solve_sat({[list(c) for c in clauses]}, {cfg}): {detail}",
            }
        )
    return vs_


# ---------------------------------------------------------------------------------------- chunk fns


def _formula_cfg_chunk(params, lo, hi):
    """index = ((formula * n_orders) + order) * n_cfg + cfg ; orders: 0 canonical, 1 reversed"""
    pid, fkind, fargs, ckind, nvars, n_orders, remap = params
    formulas = formula_list(*fargs) if fkind == "subset" else loose_formulas()
    cfgs = config_menu(ckind, nvars)
    ncfg = len(cfgs)
    r = new_result()
    cache = {}
    cur = None
    for idx in range(lo, hi):
        ci = idx % ncfg
        fo = idx // ncfg
        order = fo % n_orders
        fi = fo // n_orders
        f = formulas[fi]
        if remap:
            f = tuple(tuple((remap[abs(l)] if l > 0 else -remap[abs(l)]) for l in c) for c in f)
        if order == 1:
            f = tuple(reversed(f))
        if cur != (fi, order):
            cur = (fi, order)
            cache = {}
        cfg = cfgs[ci]
        if remap and cfg.get("assumptions"):
            cfg = dict(cfg)
            cfg["assumptions"] = [(remap.get(abs(l), abs(l) + 10) if l > 0 else -remap.get(abs(l), abs(l) + 10)) for l in cfg["assumptions"]]
        run_case(pid, f, cfg, r, cache)
        if len(r["samples"]) < 1 and idx == lo:
            r["samples"].append({"clauses": [list(c) for c in f], "config": {k: v for k, v in cfg.items() if v is not None and not k.startswith("_")}})
        if len(r["violations"]) >= 40 or r["counters"]["hangs"] >= 2:
            r["capped"] = True
            break
    return r


ALIAS_HEADS = tuple(tuple(v * sg for v, sg in zip((1, 2, 3), signs)) for signs in itertools.product((1, -1), repeat=3))
ALIAS_CFGS = (
    {"input_form": "shared"},
    {"input_form": "shared", "solution_limit": 100},
    {"input_form": "tuples"},
    {"input_form": "shared", "assumptions": [4]},
)


def _alias_chunk(params, lo, hi):
    """a three-literal clause over variables 1..3 listed twice as ONE list object (or everything as tuples), followed
    by every set of <=3 clauses of length 2..3 over 4 variables. index = (formula*8 + head)*|cfgs| + cfg"""
    pid = params
    rest = formula_list(4, 3, 0, 3, 2)
    r = new_result()
    cache = {}
    cur = None
    for idx in range(lo, hi):
        cfg = ALIAS_CFGS[idx % len(ALIAS_CFGS)]
        k = idx // len(ALIAS_CFGS)
        head = ALIAS_HEADS[k % 8]
        f = (head, head) + rest[k // 8]
        if cur != k:
            cur = k
            cache = {}
        run_case(pid, f, cfg, r, cache)
        if len(r["samples"]) < 1 and idx == lo:
            r["samples"].append({"clauses": [list(c) for c in f], "config": dict(cfg)})
        if len(r["violations"]) >= 40 or r["counters"]["hangs"] >= 2:
            r["capped"] = True
            break
    return r


def planted_3sat(nvars, nclauses, seed):
    """deterministic 3-SAT with a planted model (variable v is true iff v % 3 != 0): every clause has a satisfied literal"""
    x = seed * 2654435761 % 2**32
    out = []
    while len(out) < nclauses:
        vs = []
        while len(vs) < 3:
            x = (1103515245 * x + 12345) % 2**31
            v = 1 + x % nvars
            if v not in vs:
                vs.append(v)
        x = (1103515245 * x + 12345) % 2**31
        signs = [(x >> k) & 1 for k in range(3)]
        cl = [v if sg else -v for v, sg in zip(vs, signs)]
        if any((l > 0) == (abs(l) % 3 != 0) for l in cl):
            out.append(cl)
    return out


def multiplier_cnf(n, product):
    """Tseitin CNF of an n x n array multiplier (shift-and-add with ripple-carry rows) whose 2n output bits are fixed to
    `product`. Returns (clauses, a_vars, b_vars)."""
    cl = []
    cnt = [0]
    def new():
        cnt[0] += 1
        return cnt[0]
    a = [new() for _ in range(n)]
    b = [new() for _ in range(n)]
    FALSE = new()
    cl.append([-FALSE])
    def AND(x, y):
        z = new(); cl.extend([[-z, x], [-z, y], [z, -x, -y]]); return z
    def XOR(x, y):
        z = new(); cl.extend([[-z, x, y], [-z, -x, -y], [z, -x, y], [z, x, -y]]); return z
    def OR(x, y):
        z = new(); cl.extend([[z, -x], [z, -y], [-z, x, y]]); return z
    def full_add(x, y, c):
        t = XOR(x, y); s = XOR(t, c)
        carry = OR(AND(x, y), AND(t, c))
        return s, carry
    acc = [FALSE] * (2 * n)   # running sum, little endian
    for j in range(n):
        row = [AND(a[i], b[j]) for i in range(n)]
        carry = FALSE
        new_acc = list(acc)
        for i in range(n):
            s, carry = full_add(acc[i + j], row[i], carry)
            new_acc[i + j] = s
        k = j + n
        while k < 2 * n:
            s, carry = full_add(acc[k], FALSE, carry)
            new_acc[k] = s
            k += 1
        acc = new_acc
    for k in range(2 * n):
        cl.append([acc[k]] if (product >> k) & 1 else [-acc[k]])
    return cl, a, b


def guarded_php(pigeons, holes):
    """every clause of PHP(pigeons, holes) weakened by the guard literal -1, plus (1 or 2) and (-2 or -1): satisfiable
    (guard false, variable 2 true), but the branch guard=true is the full pigeonhole problem"""
    cl = [[(l + 2 if l > 0 else l - 2) for l in c] + [-1] for c in php(pigeons, holes)]
    return cl + [[1, 2], [-2, -1]]


def circuit_model(clauses, fixed):
    """total assignment of a functional circuit CNF: unit propagation from the fixed inputs (harness error if it stalls)"""
    val = dict(fixed)
    changed = True
    while changed:
        changed = False
        for c in clauses:
            free = None
            sat = False
            nfree = 0
            for l in c:
                v = val.get(abs(l))
                if v is None:
                    nfree += 1
                    free = l
                elif v == (l > 0):
                    sat = True
                    break
            if not sat and nfree == 1:
                val[abs(free)] = free > 0
                changed = True
            elif not sat and nfree == 0:
                raise RuntimeError("circuit_model: the fixed inputs contradict the circuit")
    nv = max(abs(l) for c in clauses for l in c)
    if len(val) != nv:
        raise RuntimeError("circuit_model: propagation did not determine every variable")
    return val


def judge_known_models(clauses, cfg, res, verdict, learned, known):
    """Oracle for formulas that are satisfiable by construction, with some (or all) of their models known: the verdict
    must be a model; every learned clause must hold in every known model (for a formula with one model: entailment)."""
    from solvor.types import Status

    if verdict == "nontermination":
        return [("C02", "nontermination", "solve_sat did not return within the fuel budget")]
    if isinstance(verdict, str):
        return [("C02", "raised", verdict)]
    out = []
    for m in known:
        if satref.satisfies(m, clauses) >= 0:
            raise RuntimeError("judge_known_models: a 'known model' does not satisfy the formula (harness defect)")
    if res.status == Status.INFEASIBLE:
        out.append(("C02", "wrong_infeasible", "INFEASIBLE for a formula that is satisfiable by construction"))
    elif res.status == Status.OPTIMAL and res.solution is None:
        out.append(("C02", "no_model_returned", "status OPTIMAL without a model"))
    elif res.status not in (Status.OPTIMAL, Status.MAX_ITER):
        out.append(("C02", "status", f"status {res.status.name}"))
    if res.solution is not None:
        bad = satref.satisfies(res.solution, clauses)
        if bad >= 0:
            out.append(("C01", "not_a_model", f"solution falsifies clause {list(clauses[bad])}"))
    for k, lc in enumerate(learned):
        for m in known:
            if not any(m[abs(l)] == (l > 0) for l in lc):
                out.append(("C02", "unimplied_learned_clause", f"learned clause #{k} {lc if len(lc) <= 12 else str(lc[:12]) + '...'} is false in a model of the formula, hence not entailed"))
                return out
    return out


def large_cases():
    """(name, clauses, config, expected number of models or None[, known models]): formulas with 20 to 300 variables whose verdict is
    known by construction"""
    out = []
    for n in (70, 300):
        chain = [[1]] + [[-i, i + 1] for i in range(1, n)]
        out.append((f"implication_chain_{n}", chain, dict(solution_limit=5), 1))
        out.append((f"implication_chain_{n}_reversed_list", list(reversed(chain)), dict(solution_limit=5, luby_factor=1), 1))
        out.append((f"implication_chain_{n}_assume_last_false", chain, dict(assumptions=[-n]), 0))
    n = 12
    eo = [list(range(1, n + 1))] + [[-i, -j] for i in range(1, n + 1) for j in range(i + 1, n + 1)]
    out.append(("exactly_one_of_12", eo, dict(solution_limit=100), 12))
    out.append(("exactly_one_of_12_restarts", eo, dict(solution_limit=100, luby_factor=1), 12))
    for k in (4, 5):
        out.append((f"pigeonhole_{k + 1}_into_{k}", php(k + 1, k), dict(luby_factor=2), 0))
    for nv, nc, sd in ((30, 120, 1), (30, 126, 2), (40, 160, 3), (60, 228, 4), (60, 240, 5)):
        for lf in (1, 100):
            out.append((f"planted_3sat_{nv}v_{nc}c_seed{sd}_luby{lf}", planted_3sat(nv, nc, sd), dict(luby_factor=lf), None))
    # satisfiable formulas that cost thousands of conflicts under default tuning (hundreds of analyses, Luby restarts,
    # clause-database reductions inside one call)
    for pg in (7, 8):
        g = guarded_php(pg, pg - 1)
        nv = max(abs(l) for c in g for l in c)
        known = [{v: (v == 2) if v <= 2 else fill(v) for v in range(1, nv + 1)} for fill in (lambda v: False, lambda v: True, lambda v: v % 2 == 0)]
        out.append((f"guarded_pigeonhole_{pg}_into_{pg - 1}", g, dict(), None, known))
    for nb, prime in ((11, 1433), (12, 2423), (13, 5783)):
        cl, a, b = multiplier_cnf(nb, prime * prime)
        fixed = {v: bool(prime >> i & 1) for i, v in enumerate(a)}
        fixed.update({v: bool(prime >> i & 1) for i, v in enumerate(b)})
        out.append((f"multiplier_{nb}x{nb}_product_{prime}_squared", cl, dict(), None, [circuit_model(cl[:-2 * nb], fixed)]))
    return out


def _is_prime(x):
    return x > 1 and all(x % d for d in range(2, int(x**0.5) + 1))


@functools.lru_cache(maxsize=None)
def multiplier_family():
    """(bits, prime): for 10..13 bits every k-th prime with the top bit set, twelve per width"""
    out = []
    for n in (10, 11, 12, 13):
        ps = [p for p in range(2 ** (n - 1) + 1, 2**n) if _is_prime(p)]
        out += [(n, p) for p in ps[:: max(1, len(ps) // 12)][:12]]
    return tuple(out)


def _multiplier_chunk(params, lo, hi):
    """n x n array multiplier with the product fixed to p^2, p prime: exactly one model (both factors p), hundreds to
    thousands of conflicts under default tuning; every learned clause must hold in that model (= entailment)"""
    pid = params
    fam = multiplier_family()
    r = new_result()
    for idx in range(lo, hi):
        nb, prime = fam[idx]
        name = f"multiplier_{nb}x{nb}_product_{prime}_squared"
        cl, a, b = multiplier_cnf(nb, prime * prime)
        fixed = {v: bool(prime >> i & 1) for i, v in enumerate(a)}
        fixed.update({v: bool(prime >> i & 1) for i, v in enumerate(b)})
        known = [circuit_model(cl[: -2 * nb], fixed)]
        cfg = dict(_guard=HEAVY)
        res, verdict, learned, ncalls, tap_on = call(cl, cfg)
        vs_ = judge_known_models(cl, cfg, res, verdict, learned, known)
        r["n"] += 1
        r["nontrivial"] += 1
        r["outcomes"]["multiplier:" + classify(res, verdict, learned, ncalls)] += 1
        r["counters"]["learned_clauses_checked_against_known_models"] += len(learned)
        r["counters"]["analysed_conflicts"] += ncalls
        if ncalls > 255:
            r["counters"]["cases_with_more_than_255_conflicts"] += 1
        for p_, kind, detail in vs_:
            if p_ == pid:
                r["violations"].append({"function": "solve_sat", "predicates": [], "kind": kind, "witness": {"multiplier": [nb, prime]}, "detail": f"solve_sat({name}): {detail}"})
        if not r["samples"]:
            r["samples"].append({"multiplier": [nb, prime]})
    return r


def _large_chunk(params, lo, hi):
    pid = params
    cases = large_cases()
    r = new_result()
    for idx in range(lo, hi):
        name, clauses, cfg, count = cases[idx][:4]
        known = cases[idx][4] if len(cases[idx]) > 4 else None
        cfg = dict(cfg, _guard=HEAVY if known else MEDIUM)
        res, verdict, learned, ncalls, tap_on = call(clauses, cfg)
        if known:
            vs_ = judge_known_models(clauses, cfg, res, verdict, learned, known)
            r["counters"]["learned_clauses_checked_against_known_models"] += len(learned)
        else:
            vs_ = judge_big(clauses, cfg, res, verdict, learned, ncalls, tap_on)
        if verdict is None and count is not None:
            got = len(res.solutions) if res.solutions is not None else (1 if res.solution is not None else 0)
            if got != min(count, cfg.get("solution_limit", 1)):
                vs_.append(("C01", "wrong_model_count", f"{got} models returned, the formula has exactly {count}"))
            if count == 0 and res.status.name != "INFEASIBLE":
                vs_.append(("C02", "model_for_unsat", f"status {res.status.name} for a formula that is unsatisfiable by construction"))
            if count and res.status.name == "INFEASIBLE":
                vs_.append(("C02", "wrong_infeasible", f"INFEASIBLE for a formula with {count} models"))
        if verdict is None and count is None and res.status.name != "OPTIMAL":
            vs_.append(("C02", "wrong_infeasible", f"status {res.status.name} for a formula with a planted model"))
        r["n"] += 1
        r["nontrivial"] += 1
        r["outcomes"]["large:" + classify(res, verdict, learned, ncalls)] += 1
        if learned:
            r["counters"]["cases_with_learned_clause"] += 1
        for p, kind, detail in vs_:
            if p != pid:
                continue
            r["violations"].append({"function": "solve_sat", "predicates": [], "kind": kind, "witness": {"large": name}, "detail": f"solve_sat({name}, {cfg}): {detail}"})
        if not r["samples"]:
            r["samples"].append({"large": name})
    return r


def _lit_variant(c, vi):
    """the literals of a clause in another order: 0 ascending by variable, 1 descending, 2 last two swapped"""
    if vi == 1:
        return tuple(reversed(c))
    if vi == 2 and len(c) == 3:
        return (c[0], c[2], c[1])
    if vi == 2:
        return tuple(reversed(c))
    return c


def _litorder_chunk(params, lo, hi):
    """clause sets of size 1..3 over the 120 clauses of length 2-3 on 5 variables, each with the literals of every clause
    in three orders (which literals are watched first depends on it), all models requested.
    index (+offset) = formula*3 + variant; the restart schedule alternates with the formula index"""
    pid, off = params
    formulas = formula_list(5, 3, 1, 3, 2)
    r = new_result()
    for idx in range(lo + off, hi + off):
        fi, vi = divmod(idx, 3)
        f = tuple(_lit_variant(c, vi) for c in formulas[fi])
        cfg = {"solution_limit": 1000, "luby_factor": 1} if fi % 2 else {"solution_limit": 1000}
        run_case(pid, f, cfg, r, {})
        if len(r["samples"]) < 1 and idx == lo + off:
            r["samples"].append({"clauses": [list(c) for c in f], "config": dict(cfg)})
        if len(r["violations"]) >= 40 or r["counters"]["hangs"] >= 2:
            r["capped"] = True
            break
    return r


def _explicit_chunk(params, lo, hi):
    pid, cases = params
    r = new_result()
    for idx in range(lo, hi):
        clauses, cfg = cases[idx]
        run_case(pid, clauses, cfg, r, None)
        if r["counters"]["hangs"] >= 2:
            r["capped"] = True
            break
        if idx == lo:
            r["samples"].append({"clauses": [list(c) for c in clauses][:8], "n_clauses": len(clauses), "config": {k: v for k, v in cfg.items() if v is not None and not k.startswith("_")}})
    return r


# --------------------------------------------------------------------------------- structured families


def php(pigeons, holes):
    """pigeonhole principle, var(p,h) = p*holes + h + 1"""
    var = lambda p, h: p * holes + h + 1
    cl = [[var(p, h) for h in range(holes)] for p in range(pigeons)]
    for h in range(holes):
        for p, q in itertools.combinations(range(pigeons), 2):
            cl.append([-var(p, h), -var(q, h)])
    return cl


def parity_chain(n, odd):
    """x1 xor x2 xor ... xor xn = odd, encoded through chained 3-variable xors with auxiliaries"""
    cl = []
    nxt = n + 1
    acc = 1
    for i in range(2, n + 1):
        out = nxt
        nxt += 1
        a, b, c = acc, i, out  # c = a xor b
        cl += [[-a, -b, -c], [a, b, -c], [a, -b, c], [-a, b, c]]
        acc = out
    cl.append([acc] if odd else [-acc])
    return cl


def structured_cases(tier):
    cases = []
    budgets = [dict(luby_factor=lf) for lf in (1, 2, 100)]
    for k in (1, 2, 3) + ((4,) if tier == "thorough" else ()):
        for b in budgets:
            cases.append((php(k + 1, k), dict(b)))
            cases.append((php(k, k), dict(b, solution_limit=50)))
    # every variable renaming x polarity flip of PHP(3,2) (6 variables): solver is not symmetric in numbering
    base = php(3, 2)
    perms = list(itertools.permutations(range(1, 7)))
    flips = range(64) if tier == "thorough" else (0, 21, 42, 63)
    for pm in perms:
        for fl in flips:
            f = [[(pm[abs(l) - 1] * (1 if l > 0 else -1)) * (-1 if fl >> (pm[abs(l) - 1] - 1) & 1 else 1) for l in c] for c in base]
            cases.append((f, dict(luby_factor=1)))
    for n in (3, 4, 5, 6):
        for odd in (True, False):
            for b in budgets:
                cases.append((parity_chain(n, odd), dict(b, solution_limit=100)))
                # two contradictory parity constraints on the same variables -> UNSAT needing real search
                f = parity_chain(n, True)
                g = parity_chain(n, False)
                off = n - 1  # rename auxiliaries of g
                g = [[(l + off if abs(l) > n and l > 0 else (l - off if abs(l) > n else l)) for l in c] for c in g]
                cases.append((f + g, dict(b)))
    # assumptions on structured instances
    for k in (2, 3):
        f = php(k, k)
        for v in range(1, k * k + 1):
            cases.append((f, dict(assumptions=[v], solution_limit=50, luby_factor=1)))
            cases.append((f, dict(assumptions=[-v], solution_limit=50, luby_factor=1)))
    return cases


HEAVY = (120.0, 1_500_000_000)  # alarm seconds, JUMP-event fuel for cases that legitimately run for seconds
MEDIUM = (30.0, 300_000_000)
RD_BASE = [[1, 2, 3], [-4, 5, 6], [7, -8, 9], [-10, 11, -12]]
RD_LINKS = [[1, -5, 9], [-2, 6, -13], [3, -6, 13], [-9, 12, 13], [2, -7, -13]]


def reduce_db_cases(tier):
    """>= 2000 learned/blocking clauses so that the clause-database reduction runs over blocking clauses.

    Directed family: four disjoint ternary clauses over 12 variables plus every 1- or 2-subset of five linking
    clauses that brings in a 13th variable (3000-5000 models each), all models requested; the blocking clauses
    themselves cause the conflicts and restarts after which reduce_db runs (evidence counts the effective calls)."""
    cases = []
    link_sets = [[l] for l in RD_LINKS if 13 in map(abs, l)] + [list(p) for p in itertools.combinations(RD_LINKS, 2)]
    cfgs = [dict(solution_limit=6000, luby_factor=1), dict(solution_limit=6000, luby_factor=100)]
    if tier == "thorough":
        cfgs += [dict(solution_limit=2500, luby_factor=1), dict(solution_limit=6000, luby_factor=2), dict(solution_limit=6000, luby_factor=1, assumptions=[13])]
    for ls in link_sets:
        for c in cfgs:
            cases.append((RD_BASE + ls, dict(c, _guard=HEAVY)))
    for n in (11, 12) if tier == "thorough" else (11,):
        wide = [list(range(1, n + 1)), [-v for v in range(1, n + 1)]]
        g = HEAVY
        cases.append((wide, dict(solution_limit=2**n + 5, luby_factor=1, _guard=g)))
        cases.append((wide, dict(solution_limit=2**n + 5, luby_factor=100, _guard=g)))
        cases.append((wide + [[1, -2, 3]], dict(solution_limit=2**n + 5, luby_factor=2, _guard=g)))
    return cases


def special_cases():
    cases = []
    for a in (None, [1], [-1], [1, -1], [2]):
        for lim in (1, 3):
            for f in ([], [[]], [[], [1]], [[1], []], [[1]], [[-1]], [[1], [-1]], [[1], [1]], [[2]], [[-5]], [[1, 1]], [[1, -1]]):
                cases.append((f, dict(assumptions=a, solution_limit=lim, luby_factor=1)))
    return cases


# ------------------------------------------------------------------- CNFs produced by the CP encoder (18-60+ variables)

ENC_CONFIGS = (
    dict(),
    dict(luby_factor=1),
    dict(luby_factor=1, solution_limit=40),
    dict(luby_factor=2, max_conflicts=30),
    dict(luby_factor=1, max_restarts=3, solution_limit=5),
)


def judge_big(clauses, cfg, res, verdict, learned, analyze_calls, tap_on):
    """Oracle for formulas too large for a truth table: reference DPLL for the verdict and for entailment."""
    from solvor.types import Status

    out = []
    if verdict == "nontermination":
        return [("C02", "nontermination", "solve_sat did not return within the fuel budget")]
    if isinstance(verdict, str):
        return [("C02", "raised", verdict)]
    assumed = [[l] for l in (cfg.get("assumptions") or [])]
    ref = satref.dpll(list(clauses) + assumed)
    returned = []
    if res.solution is not None:
        returned.append(("solution", res.solution))
    if res.solutions is not None:
        returned += [(f"solutions[{i}]", s_) for i, s_ in enumerate(res.solutions)]
    for name, s_ in returned:
        bad = satref.satisfies(s_, clauses)
        if bad >= 0:
            out.append(("C01", "not_a_model", f"{name} falsifies clause {list(clauses[bad])}"))
            break
    if res.solutions is not None:
        keys = [tuple(sorted(s_.items())) for s_ in res.solutions]
        if len(set(keys)) != len(keys):
            out.append(("C01", "duplicate_models", "solutions contains the same assignment twice"))
        if len(keys) > cfg.get("solution_limit", 1):
            out.append(("C01", "too_many_models", f"{len(keys)} solutions for solution_limit={cfg.get('solution_limit', 1)}"))
    if res.status == Status.INFEASIBLE and ref is not None:
        out.append(("C02", "wrong_infeasible", "INFEASIBLE but the reference DPLL finds a model"))
    if ref is None and res.solution is not None:
        out.append(("C02", "model_for_unsat", "a model is reported but the reference DPLL proves the formula unsatisfiable"))
    if ref is not None and res.status == Status.OPTIMAL and res.solution is None:
        out.append(("C02", "no_model_returned", "status OPTIMAL without a model"))
    if res.status == Status.MAX_ITER and tap_on:
        need = min(cfg.get("max_conflicts", 100_000) - 1, restart_budget_conflicts(cfg))
        if analyze_calls < need:
            out.append(("C02", "max_iter_without_budget", f"MAX_ITER after {analyze_calls} analysed conflicts; budgets need >= {need}"))
    if learned:
        blocking = []
        for _, s_ in returned:
            blocking.append([(-v if b else v) for v, b in s_.items()])
        for lc in learned[:60]:
            if satref.dpll(list(clauses) + blocking, [-l for l in lc]) is not None and not assumed:
                out.append(("C02", "unimplied_learned_clause", f"learned clause {lc} is not entailed by the formula (blocked models excepted)"))
                break
    return out


def _encoder_chunk(params, lo, hi):
    import importlib

    from checks import cplib
    from checks.c05 import SPACES

    pid, space, off, stride = params
    enc = importlib.import_module("solvor.cp_encoder")
    real = enc.solve_sat
    captured = {}

    def spy(clauses, **kw):
        captured["cnf"] = [list(c) for c in clauses]
        return real(clauses, **kw)

    r = new_result()
    enc.solve_sat = spy
    try:
        for idx in range(lo, hi):
            doms, cons = SPACES[space][0](off + idx * stride)
            m, xs, ok = cplib.make_model(doms, cons)
            if not ok:
                continue
            captured.pop("cnf", None)
            try:
                m.solve(solver="sat")
            except Exception:  # noqa: BLE001
                continue
            cnf = captured.get("cnf")
            if not cnf:
                continue
            for cfg in ENC_CONFIGS:
                c2 = dict(cfg, _guard=MEDIUM)
                res, verdict, learned, ncalls, tap_on = call(cnf, c2)
                r["n"] += 1
                r["outcomes"]["encoder:" + classify(res, verdict, learned, ncalls)] += 1
                if verdict == "nontermination":
                    r["counters"]["hangs"] += 1
                if learned:
                    r["nontrivial"] += 1
                    r["counters"]["cases_with_learned_clause"] += 1
                    r["counters"]["learned_clauses_checked"] += min(len(learned), 60)
                for p_, kind, detail in judge_big(cnf, cfg, res, verdict, learned, ncalls, tap_on):
                    if p_ != pid:
                        continue
                    r["violations"].append({"function": "solve_sat", "predicates": [], "kind": kind, "witness": {"clauses": cnf, "config": dict(cfg)}, "detail": f"solve_sat(<CNF of CP model {space}#{off + idx * stride}: {len(cnf)} clauses>, {cfg}): {detail}"})
            if not r["samples"]:
                r["samples"].append({"cp_model_space": space, "index": off + idx * stride, "n_clauses": len(cnf), "n_vars": max(abs(l) for c in cnf for l in c)})
            if len(r["violations"]) >= 20 or r["counters"]["hangs"] >= 2:
                r["capped"] = True
                break
    finally:
        enc.solve_sat = real
    return r


def make_jobs(pid, tier, seed):
    jobs = []
    n_core = len(formula_list(3, 3, 0, 4))
    ncfg = len(config_menu("core", 3))
    jobs.append(
        Job(
            "u33_le4_x_core",
            n_core * 2 * ncfg,
            _formula_cfg_chunk,
            (pid, "subset", (3, 3, 0, 4), "core", 3, 2, None),
            describe=f"all {n_core} clause-sets of size <=4 over the 26 clauses on 3 variables, canonical and reversed order, x {ncfg} configurations (assumptions x solution_limit x luby_factor, and the budget cross)",
        )
    )
    loose = len(loose_formulas())
    nl = len(config_menu("light", 2))
    jobs.append(
        Job(
            "loose2_x_light",
            loose * nl,
            _formula_cfg_chunk,
            (pid, "loose", None, "light", 2, 1, None),
            describe="1-2 clauses given as arbitrary literal sequences (duplicates, tautologies) over 2 variables",
        )
    )
    n3 = len(formula_list(3, 3, 1, 3))
    jobs.append(
        Job(
            "gaps_137_le3_x_light",
            n3 * 2 * len(config_menu("light", 3)),
            _formula_cfg_chunk,
            (pid, "subset", (3, 3, 1, 3), "light", 3, 2, {1: 1, 2: 3, 3: 7}),
            describe="clause-sets of size <=3 with variables renamed to {1,3,7} (gaps in the numbering)",
        )
    )
    sp = special_cases()
    jobs.append(Job("multiplier_unique_model", len(multiplier_family()), _multiplier_chunk, pid, chunk=1, describe="Tseitin CNFs of n x n array multipliers (n = 10..13, 2 000-5 000 clauses) with the product fixed to the square of a prime, twelve primes per width: one model, hundreds to thousands of analysed conflicts per call under default tuning; verdict, model and every learned clause judged against the known model"))
    jobs.append(Job("large_by_construction", len(large_cases()), _large_chunk, pid, chunk=1, describe="implication chains over 70 and 300 variables, exactly-one of 12, pigeonhole 5->4 and 6->5, 3-SAT with a planted model on 30-60 variables: verdict and model count known by construction"))
    n_lo = len(formula_list(5, 3, 1, 3, 2)) * 3
    if tier == "thorough":
        jobs.append(Job("u5_mixed_le3_literal_orders", n_lo, _litorder_chunk, (pid, 0), describe="clause sets of size <=3 over the 120 clauses of length 2-3 on 5 variables x 3 literal orders per clause, all models requested"))
    else:
        b = seed % 8
        jobs.append(Job(f"u5_mixed_le3_literal_orders_block{b}of8", n_lo // 8, _litorder_chunk, (pid, b * (n_lo // 8)), describe="rotating 1/8 block (VERIF_SEED) of: clause sets of size <=3 over the 120 clauses of length 2-3 on 5 variables x 3 literal orders per clause, all models requested"))
    jobs.append(Job("aliased_duplicate_clause", len(formula_list(4, 3, 0, 3, 2)) * 8 * len(ALIAS_CFGS), _alias_chunk, pid, describe="a ternary clause listed twice as one shared list object (and the tuple form) + every set of <=3 clauses of length 2-3 on 4 variables"))
    jobs.append(Job("special_empty", len(sp), _explicit_chunk, (pid, sp), describe="empty formula, empty clause, single units x assumptions"))
    st = structured_cases(tier)
    jobs.append(Job("structured", len(st), _explicit_chunk, (pid, st), chunk=max(1, len(st) // 256), describe="pigeonhole (all renamings of PHP(3,2)), parity chains, assumptions on n-rooks"))
    rd = reduce_db_cases(tier)
    jobs.append(Job("reduce_db", len(rd), _explicit_chunk, (pid, rd), chunk=1, describe=">=2000 blocking clauses: two wide clauses over 11-12 variables, all models enumerated"))
    # 4 variables, ternary clauses only: the smallest space with three decision levels below a conflict
    # (level-0 assumption + two decisions + a propagated literal), where backjump-level mistakes show
    t4 = (4, 3, 1, 4 if tier == "quick" else 5, 3)
    n_t4 = len(formula_list(*t4))
    jobs.append(Job(f"u4_ternary_le{t4[3]}_x_light", n_t4 * len(config_menu("light", 4)), _block_chunk, (pid, t4, "light", 4, 0), describe="clause-sets of the 32 three-literal clauses on 4 variables x light configurations (assumptions, enumeration, budgets)"))
    if tier == "thorough":
        t5 = (5, 3, 1, 3, 3)
        jobs.append(Job("u5_ternary_le3_x_light", len(formula_list(*t5)) * len(config_menu("light", 5)), _block_chunk, (pid, t5, "light", 5, 0), describe="clause-sets of <=3 of the 80 three-literal clauses on 5 variables"))
    # CNFs produced by the CP encoder (the formulas on which learning, backjumping and restarts fire for real)
    from checks.c05 import SPACES as CP_SPACES

    for space, stride in (("cumulative3_window05", 1), ("cumulative4_window03", 4), ("circuit4", 4), ("sum4", 8), ("no_overlap3", 2)):
        st = stride if tier == "quick" else max(1, stride // 4)
        size = CP_SPACES[space][1]()
        jobs.append(Job(f"encoder_cnf_{space}", (size - seed % st + st - 1) // st, _encoder_chunk, (pid, space, seed % st, st), describe=f"CNF captured from the CP encoder for every {st}-th model of '{space}' (offset rotates with VERIF_SEED) x 5 solver configurations; reference DPLL oracle"))
    # rotating extra block (complete enumeration of one block of the thorough space)
    if tier == "quick":
        n5 = len(formula_list(3, 3, 5, 5))
        blocks = 16
        b = seed % blocks
        lo = n5 * b // blocks
        hi = n5 * (b + 1) // blocks
        jobs.append(
            Job(
                f"u33_eq5_block{b}of{blocks}_x_enum",
                (hi - lo) * len(config_menu("enum", 3)),
                _block_chunk,
                (pid, (3, 3, 5, 5), "enum", 3, lo),
                describe="rotating block (VERIF_SEED) of the 5-clause formulas, enumerated completely",
            )
        )
    else:
        n56 = len(formula_list(3, 3, 5, 6))
        jobs.append(Job("u33_5to6_x_enum", n56 * len(config_menu("enum", 3)), _block_chunk, (pid, (3, 3, 5, 6), "enum", 3, 0), describe="all clause-sets of size 5-6 on 3 variables"))
        n4 = len(formula_list(4, 3, 1, 3))
        jobs.append(Job("u43_le3_x_light", n4 * len(config_menu("light", 4)), _block_chunk, (pid, (4, 3, 1, 3), "light", 4, 0), describe="clause-sets of size <=3 over the 64 clauses on 4 variables"))
    return jobs


def _block_chunk(params, lo, hi):
    pid, fargs, ckind, nvars, off = params
    formulas = formula_list(*fargs)
    cfgs = config_menu(ckind, nvars)
    ncfg = len(cfgs)
    r = new_result()
    cache = {}
    cur = None
    for idx in range(lo, hi):
        fi = off + idx // ncfg
        cfg = cfgs[idx % ncfg]
        f = formulas[fi]
        if cur != fi:
            cur = fi
            cache = {}
        run_case(pid, f, cfg, r, cache)
        if idx == lo:
            r["samples"].append({"clauses": [list(c) for c in f], "config": {k: v for k, v in cfg.items() if v is not None and not k.startswith("_")}})
        if len(r["violations"]) >= 40 or r["counters"]["hangs"] >= 2:
            r["capped"] = True
            break
    return r


def replay(pid, v):
    w = v["witness"]
    r = new_result()
    if w.get("large"):
        names = [c[0] for c in large_cases()]
        i = names.index(w["large"])
        rr = _large_chunk(pid, i, i + 1)
        return rr["violations"][0] if rr["violations"] else None
    if w.get("multiplier"):
        i = list(multiplier_family()).index(tuple(w["multiplier"]))
        rr = _multiplier_chunk(pid, i, i + 1)
        return rr["violations"][0] if rr["violations"] else None
    run_case(pid, [tuple(c) for c in w["clauses"]], dict(w["config"]), r, None)
    return r["violations"][0] if r["violations"] else None
