"""Termination guard (engine E4, fuel part).

`guarded(fn, seconds)` runs fn under a SIGALRM; when the alarm fires the same call is re-run under
*fuel*: sys.monitoring counts JUMP events (loop back-edges, continue/break) of every Python code object and raises
FuelExhausted inside the monitored code once a budget is exceeded. Only a fuel exhaustion is a
(deterministic, replayable) non-termination verdict; a call that merely was slow passes.
"""

from __future__ import annotations

import signal
import sys


class AlarmTimeout(BaseException):
    pass


class FuelExhausted(BaseException):
    pass


def _on_alarm(signum, frame):
    raise AlarmTimeout()


_INSTALLED = [False]


def with_alarm(fn, seconds: float):
    """Returns (value, None) or (None, 'alarm'). The handler is installed once per process."""
    if not _INSTALLED[0]:
        signal.signal(signal.SIGALRM, _on_alarm)
        _INSTALLED[0] = True
    setit = signal.setitimer
    setit(signal.ITIMER_REAL, seconds)
    try:
        try:
            v = fn()
        finally:
            setit(signal.ITIMER_REAL, 0)
        return v, None
    except AlarmTimeout:
        return None, "alarm"


_TOOL = 3


def with_fuel(fn, budget: int):
    """Returns (value, used, None) or (None, budget, 'fuel')."""
    mon = sys.monitoring
    used = [0]

    def on_jump(code, off, dest):
        used[0] += 1
        if used[0] > budget:
            mon.set_events(_TOOL, 0)
            raise FuelExhausted()

    try:
        mon.use_tool_id(_TOOL, "solvor-verif-fuel")
    except ValueError:
        mon.free_tool_id(_TOOL)
        mon.use_tool_id(_TOOL, "solvor-verif-fuel")
    mon.register_callback(_TOOL, mon.events.JUMP, on_jump)
    mon.set_events(_TOOL, mon.events.JUMP)
    try:
        v = fn()
        return v, used[0], None
    except FuelExhausted:
        return None, budget, "fuel"
    finally:
        mon.set_events(_TOOL, 0)
        mon.register_callback(_TOOL, mon.events.JUMP, None)
        mon.free_tool_id(_TOOL)


def guarded(fn, seconds: float = 2.0, fuel: int = 20_000_000):
    """Run fn; returns (value, verdict) with verdict in {None, 'nontermination'}.

    'nontermination' is only reported when the fuel-limited re-run exhausts its budget, which is a
    deterministic function of the input."""
    v, why = with_alarm(fn, seconds)
    if why is None:
        return v, None
    v, used, why = with_fuel(fn, fuel)
    if why is None:
        return v, None
    return None, "nontermination"


def run(fn, seconds: float = 2.0, fuel: int = 20_000_000):
    """Call the solver under the termination guard and catch its exceptions.

    Returns (value, None) | (None, 'nontermination') | (None, 'raised <Type>: <msg>')."""

    def wrapped():
        try:
            return fn(), None
        except Exception as ex:  # noqa: BLE001
            return None, f"raised {type(ex).__name__}: {ex}"

    v, verdict = guarded(wrapped, seconds, fuel)
    if verdict:
        return None, verdict
    return v


class SolverHang(Exception):
    """Raised by call() when the solver did not return within the fuel budget (a deterministic verdict)."""


HANGS = [0]


def call(fn, seconds: float = 2.0, fuel: int = 20_000_000):
    """Run fn under the termination guard; the solver's own exceptions propagate, a non-returning call raises
    SolverHang (so callers that already report exceptions as violations report hangs the same way)."""
    box = {}

    def wrapped():
        try:
            return fn()
        except Exception as ex:  # noqa: BLE001
            box["ex"] = ex
            return None

    v, verdict = guarded(wrapped, seconds, fuel)
    if verdict:
        HANGS[0] += 1
        raise SolverHang("nontermination: the call did not return within the fuel budget")
    if "ex" in box:
        raise box["ex"]
    return v


def too_many_hangs(limit: int = 2) -> bool:
    return HANGS[0] >= limit
