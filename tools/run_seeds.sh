#!/bin/bash
# tools/run_seeds.sh [pattern]  - regression for the framework itself: applies every stored seeded change (seeded/*/patch.diff)
# to a scratch worktree of /repo's HEAD and runs the check of the property it breaks (quick tier). Prints CAUGHT / MISSED.
# Never touches /repo's working tree. Takes 1-2 min per seed.
cd "$(dirname "$0")/.."
for d in seeded/${1:-*}/; do
  sid=$(basename "$d"); [ -f "$d/meta.json" ] || continue
  prop=$(/venv/bin/python -c "import json;print(json.load(open('$d/meta.json'))['breaks_property'])")
  out=$(timeout 3000 tools/try_mutant.sh "$d/patch.diff" "$prop" 2>&1 | tail -1)
  case "$out" in *"rc=1"*) echo "CAUGHT  $sid ($prop) ${out#*::}" | cut -c1-200;; *"rc=0"*) echo "MISSED  $sid ($prop)";; *) echo "ERROR   $sid ($prop) $out" | cut -c1-200;; esac
done
